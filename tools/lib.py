#!/usr/bin/env python3
"""Shared machinery of the checks: harness build, TLC wrappers (model checking, behaviour
export, trace validation), result cache for spec-only runs, evidence and verdict handling.

Exit codes of ./check:  0 property held on everything explored (KNOWN-FINDING lines allowed)
                        1 a line `VIOLATION property=<id> replay=<path>` was printed
                        2 tool error / timeout (never a VIOLATION line)
"""
import concurrent.futures as cf
import hashlib
import json
import os
import re
import shutil
import subprocess
import sys
import time

ROOT = os.path.dirname(os.path.dirname(os.path.abspath(__file__)))
SPEC = os.path.join(ROOT, "spec")
HARNESS = os.path.join(ROOT, "harness")
WORK = os.path.join(ROOT, "work")
CACHE = os.path.join(WORK, "cache")
EVID = os.path.join(ROOT, "evidence")
REPLAYS = os.path.join(ROOT, "replays")
CVH = os.path.join(HARNESS, "target", "debug", "cvh")
NCPU = os.cpu_count() or 4


class ToolError(Exception):
    pass


def log(*a):
    print(*a, flush=True)


def sh(cmd, timeout=None, env=None, cwd=None, check=True):
    e = dict(os.environ)
    if env:
        e.update(env)
    try:
        p = subprocess.run(cmd, stdout=subprocess.PIPE, stderr=subprocess.STDOUT, text=True,
                           timeout=timeout, env=e, cwd=cwd, errors="replace")
    except subprocess.TimeoutExpired as ex:
        raise ToolError("timeout after %ss: %s" % (timeout, " ".join(cmd[:6])))
    if check and p.returncode != 0:
        raise ToolError("command failed (%d): %s\n%s" % (p.returncode, " ".join(cmd[:8]), p.stdout[-3000:]))
    return p.returncode, p.stdout


# ----------------------------------------------------------------------------- harness
_built = False


def build_harness():
    """Always rebuilds from /repo's current working tree (path dependency, incremental)."""
    global _built
    if _built:
        return CVH
    t = time.time()
    env = {"CARGO_NET_OFFLINE": "true"}
    rc, out = sh(["cargo", "build", "--offline", "--quiet"], cwd=HARNESS, env=env, timeout=900, check=False)
    if rc != 0:
        raise ToolError("harness build failed:\n" + out[-4000:])
    _built = True
    log("[build] harness rebuilt from /repo working tree in %.1fs" % (time.time() - t))
    return CVH


UNINSTRUMENTED = set()
LAST_CVH = {"rc": 0}


def cvh(args, timeout=600, check=True):
    """Run a harness subcommand; returns (summary dict, raw output)."""
    build_harness()
    rc, out = sh([CVH] + [str(a) for a in args], timeout=timeout, check=False)
    LAST_CVH["rc"] = rc
    summ = None
    for l in out.splitlines():
        if l.startswith("SUMMARY "):
            summ = json.loads(l[8:])
    if summ is None and check:
        raise ToolError("harness %s gave no summary (rc=%s):\n%s" % (args[0], rc, out[-3000:]))
    if summ and summ.get("uninstrumented"):
        # the instrumentation self-probe failed for some sink families: their runs were skipped, not judged
        UNINSTRUMENTED.update(summ["uninstrumented"])
    return summ, out


# ----------------------------------------------------------------------------- TLC
JAVA_DFS = "-Xss1g -Dtlc2.tool.queue.IStateQueue=StateDeque"


def spec_hash(deps=None):
    h = hashlib.sha256()
    for f in sorted(os.listdir(SPEC)):
        if deps is not None and f not in deps:
            continue
        if f.endswith((".tla", ".cfg")):
            h.update(f.encode())
            h.update(open(os.path.join(SPEC, f), "rb").read())
    return h.hexdigest()


def write_cfg(path, spec="Spec", constants=None, invariants=(), properties=(), extra=()):
    lines = ["SPECIFICATION %s" % spec]
    if constants:
        lines.append("CONSTANTS")
        for k, v in constants.items():
            if isinstance(v, bool):
                v = "TRUE" if v else "FALSE"
            elif isinstance(v, str) and not v.startswith("<-") and not v.startswith("{"):
                v = '"%s"' % v
            if isinstance(v, str) and v.startswith("<-"):
                lines.append("  %s %s" % (k, v))
            else:
                lines.append("  %s = %s" % (k, v))
    for i in invariants:
        lines.append("INVARIANT %s" % i)
    for p in properties:
        lines.append("PROPERTY %s" % p)
    lines.extend(extra)
    lines.append("CHECK_DEADLOCK FALSE")
    open(path, "w").write("\n".join(lines) + "\n")


def parse_tlc(out):
    r = {"generated": 0, "distinct": 0, "violated": [], "errors": [], "ok": False, "depth": 0}
    m = re.findall(r"(\d[\d,]*) states generated, (\d[\d,]*) distinct states found", out)
    if m:
        r["generated"] = int(m[-1][0].replace(",", ""))
        r["distinct"] = int(m[-1][1].replace(",", ""))
    m = re.search(r"depth of the complete state graph search is (\d+)", out)
    if m:
        r["depth"] = int(m.group(1))
    for m in re.finditer(r"Error: Invariant (\w+) is violated", out):
        r["violated"].append(m.group(1))
    for m in re.finditer(r"Error: Temporal propert(?:y (\w+) was|ies were) violated", out):
        r["violated"].append(m.group(1) or "TEMPORAL")
    if "Model checking completed. No error has been found." in out or "Finished in" in out and not re.search(r"^Error:", out, re.M):
        r["ok"] = True
    for m in re.finditer(r"^Error: (?!Invariant \w+ is violated|Temporal propert|The behavior up to|The following behavior)(.*)$", out, re.M):
        r["errors"].append(m.group(1)[:300])
    return r


def tlc(module, cfg, workdir, workers=2, timeout=900, args=(), env=None, tag="tlc", java_opts=None):
    """Run TLC on spec/<module>.tla with the given cfg file. Returns (parsed, raw output)."""
    meta = os.path.join(workdir, "meta-%s-%d" % (tag, os.getpid()))
    cmd = ["timeout", str(timeout), "tlc", "-workers", str(workers), "-metadir", meta, "-cleanup",
           "-noGenerateSpecTE", "-config", cfg] + list(args) + [os.path.join(SPEC, module + ".tla")]
    e = dict(env or {})
    # TLC's own temporary directories go under the run's work directory (removed with it), not under /tmp
    jtmp = os.path.join(workdir, "jtmp")
    os.makedirs(jtmp, exist_ok=True)
    e["JAVA_TOOL_OPTIONS"] = ((java_opts + " ") if java_opts else "") + "-Djava.io.tmpdir=" + jtmp
    rc, out = sh(cmd, env=e, check=False, timeout=timeout + 30)
    shutil.rmtree(meta, ignore_errors=True)
    if rc == 124:
        raise ToolError("TLC timeout (%ss) on %s %s" % (timeout, module, os.path.basename(cfg)))
    r = parse_tlc(out)
    r["rc"] = rc
    # action coverage (only present when -coverage was requested): name -> states generated by the action
    cov = {}
    for m in re.finditer(r"^<(\w+) line \d+, col \d+ to line \d+, col \d+ of module (\w+)>: (\d+):(\d+)", out, re.M):
        cov[m.group(1)] = max(cov.get(m.group(1), 0), int(m.group(4)))
    if cov:
        r["actions"] = cov
    return r, out


def tlc_cached(key, fn, deps=None):
    """Cache for runs that depend on files under spec/ only (never on /repo)."""
    os.makedirs(CACHE, exist_ok=True)
    h = hashlib.sha256((spec_hash(deps) + "|" + key).encode()).hexdigest()[:24]
    p = os.path.join(CACHE, h + ".json")
    if os.path.exists(p) and not os.environ.get("VERIF_NOCACHE"):
        try:
            r = json.load(open(p))
            r["cached"] = True
            return r
        except Exception:
            pass
    r = fn()
    json.dump(r, open(p, "w"))
    r["cached"] = False
    return r


def check_vacuity(name, results, ignore=()):
    """Every action of an implementation model must have been taken in at least one exhaustive configuration
    (a property cannot pass by never being exercised). `results` carry the `actions` maps of -coverage runs."""
    total = {}
    for r in results:
        for a, n in (r.get("actions") or {}).items():
            total[a] = total.get(a, 0) + n
    if not total:
        return {}
    dead = sorted(a for a, n in total.items() if n == 0 and a not in ignore and a != "Init")
    if dead:
        raise ToolError("%s: actions never taken in any exhaustive configuration (vacuous model): %s" % (name, dead))
    return total


def pmap(fn, items, par=None):
    par = par or max(1, NCPU // 2)
    with cf.ThreadPoolExecutor(max_workers=par) as ex:
        return list(ex.map(fn, items))


def extract_replay(out, dst, limit=None):
    n = 0
    with open(dst, "a") as f:
        for l in out.splitlines():
            if l.startswith('<<"REPLAY"'):
                m = re.match(r'<<"REPLAY", (".*")>>$', l.strip())
                if m:
                    f.write(json.loads(m.group(1)) + "\n")
                    n += 1
                    if limit and n >= limit:
                        break
    return n


def validate_trace(trace_module, trace_file, workdir, timeout=900, tag="tv"):
    """Trace validation: TLC checks the recorded NDJSON trace against the trace spec.
    Returns dict(consumed, total, bad=[[prop, rule, runline, line]...])."""
    cfg = os.path.join(SPEC, trace_module + ".cfg")
    r, out = tlc(trace_module, cfg, workdir, workers=1, timeout=timeout, env={"TRACE": trace_file},
                 tag=tag, java_opts=JAVA_DFS)
    v = None
    for l in out.splitlines():
        if l.startswith('<<"VERDICT"'):
            m = re.match(r'<<"VERDICT", (".*")>>$', l.strip())
            v = json.loads(json.loads(m.group(1)))
    if v is None:
        # the trace spec could not consume the trace at all: find how far it got
        raise ToolError("trace validation produced no verdict for %s:\n%s" % (trace_file, out[-2500:]))
    if r["errors"] or r["violated"]:
        raise ToolError("trace validation failed for %s: %s %s\n%s" % (trace_file, r["errors"], r["violated"], out[-1500:]))
    v["states"] = r["distinct"]
    return v


# ----------------------------------------------------------------------------- traces
def read_ndjson(path):
    return [json.loads(l) for l in open(path) if l.strip()]


def run_segment(events, runline, upto=None):
    """Events of the run that starts at 1-based line `runline` (its reset event)."""
    seg = []
    for i in range(runline - 1, len(events)):
        if i > runline - 1 and events[i].get("ev") == "reset":
            break
        seg.append(events[i])
        if upto and i + 1 >= upto + 3:
            break
    return seg


def concat(files, dst):
    n = 0
    with open(dst, "w") as out:
        for f in files:
            for l in open(f):
                if l.strip():
                    out.write(l)
                    n += 1
    return n


# ----------------------------------------------------------------------------- findings / verdict
def load_findings():
    p = os.path.join(ROOT, "known_findings.json")
    if os.path.exists(p):
        return json.load(open(p))
    return {"known": [], "fixed": []}


def is_known(prop, rule, detail):
    for k in load_findings().get("known", []):
        if k.get("property") == prop and k.get("rule") == rule and k.get("match", "") in detail:
            return k
    return None


class Result:
    """What one check run found and covered."""

    def __init__(self, prop, tier, seed, level):
        self.prop, self.tier, self.seed, self.level = prop, tier, seed, level
        self.t0 = time.time()
        self.cov = {"states": 0, "transitions": 0, "traces_validated_against_impl": 0, "samples": [],
                    "evaluations": 0, "distinct_nontrivial": 0, "rule": ""}
        self.violations = []     # dict(prop, rule, detail, replay)
        self.other_flags = []
        self.divergences = []
        self.known = []
        self.assumptions = []
        self.notes = {}

    def add_tlc(self, r):
        self.cov["states"] += r.get("distinct", 0)
        self.cov["transitions"] += r.get("generated", 0)

    def sample(self, s):
        if len(self.cov["samples"]) < 6:
            self.cov["samples"].append(s)

    def flag(self, prop, rule, detail, replay_payload):
        """A monitor rule tagged `prop` was false on an observed execution of the real code."""
        if rule.split(":")[-1].startswith("harness-error"):
            # a rule about the harness' own protocol (an event it should never have logged): a defect or a confusion of the
            # tooling - usually a consequence of an earlier real violation in the same run - never a verdict about the code
            if len(self.divergences) < 10:
                self.divergences.append({"what": "harness protocol rule fired: " + rule, "detail": str(detail)[:300]})
            return
        if prop != self.prop:
            self.other_flags.append({"property": prop, "rule": rule, "detail": str(detail)[:300]})
            return
        k = is_known(prop, rule, json.dumps(detail))
        if k:
            self.known.append(k)
            return
        self.nviol = getattr(self, "nviol", 0) + 1
        if len(self.violations) >= 3:
            return
        os.makedirs(REPLAYS, exist_ok=True)
        n = len(self.violations)
        path = os.path.join(REPLAYS, "%s-%s-seed%d-%d.json" % (prop, self.tier, self.seed, n))
        payload = dict(replay_payload)
        payload.update({"property": prop, "rule": rule, "detail": detail, "tier": self.tier, "seed": self.seed})
        json.dump(payload, open(path, "w"), indent=1)
        self.violations.append({"property": prop, "rule": rule, "detail": detail, "replay": path})

    def finish(self):
        wall = time.time() - self.t0
        cov = dict(self.cov)
        cov["exhaustive"] = False
        cov.update(self.notes)
        if UNINSTRUMENTED:
            self.divergences.insert(0, {"what": "instrumentation self-probe failed: the hook points of these sink families are not reported by "
                                               "the code under test, their runs were skipped and NOT judged", "families": sorted(UNINSTRUMENTED)})
        if self.divergences:
            cov["model_divergences"] = self.divergences[:5]
        if self.other_flags:
            cov["other_flags"] = self.other_flags[:10]
        if not cov["samples"]:
            cov["samples"] = ["(none)"]
        ev = {"property_id": self.prop, "tier": self.tier, "seed": self.seed, "level": self.level,
              "coverage": cov, "assumptions": self.assumptions, "wall_s": round(wall, 2),
              "violations": getattr(self, "nviol", 0)}
        os.makedirs(EVID, exist_ok=True)
        json.dump(ev, open(os.path.join(EVID, self.prop + ".json"), "w"), indent=1)
        for d in self.divergences[:3]:
            log("MODEL-DIVERGENCE (not a property violation): %s" % json.dumps(d)[:600])
        for k in self.known:
            log("KNOWN-FINDING: property=%s %s" % (k["property"], k.get("what", k.get("rule"))))
        seen = set()
        for v in self.violations:
            if v["replay"] in seen:
                continue
            seen.add(v["replay"])
            log("VIOLATION property=%s replay=%s" % (v["property"], v["replay"]))
            log("  rule=%s detail=%s" % (v["rule"], json.dumps(v["detail"])[:500]))
        log("[%s %s] states=%d transitions=%d traces=%d evaluations=%d wall=%.1fs violations=%d other_flags=%d" % (
            self.prop, self.tier, cov["states"], cov["transitions"], cov["traces_validated_against_impl"],
            cov["evaluations"], wall, len(self.violations), len(self.other_flags)))
        return 1 if self.violations else 0


# ----------------------------------------------------------------------------- the composed stack (Stack.tla)
def stack_model(res, wd):
    """Stack.tla: client -> queuing sink -> buffered sink -> wire; end-to-end conservation + liveness; mutants refuted."""
    def run(bug, qcap=2, cap=5):
        def go():
            cfg = os.path.join(wd, "stack-%s-%d-%d.cfg" % (bug, qcap, cap))
            write_cfg(cfg, spec="LiveSpec", constants={"QCap": qcap, "Cap": cap, "MaxMetrics": 4, "Lens": "{1, 3, 6}", "Bug": bug},
                      invariants=["Framing", "NoDupNoAlien", "EndToEnd", "FlushEmpties", "HandOverOrder"], properties=["Eventually"])
            r, out = tlc("Stack", cfg, wd, workers=4, timeout=1800, tag="stack" + bug)
            return r
        return tlc_cached("stack-%s-%d-%d" % (bug, qcap, cap), go, deps=["Stack.tla"])
    for (q, c) in ((2, 5), (1, 4)):
        r = run("none", q, c)
        if r.get("violated") or r.get("errors") or not r.get("ok"):
            raise ToolError("Stack.tla violates its end-to-end properties: %s %s" % (r.get("violated"), r.get("errors")))
        res.add_tlc(r)
    for b in ("drop-no-flush", "flush-noop", "flush-drains"):
        if not run(b)["violated"]:
            raise ToolError("Stack.tla mutant %s not refuted" % b)
    res.notes["stack_model"] = "Stack.tla: end-to-end conservation/framing/flush + liveness for 2 configurations; mutants drop-no-flush, flush-noop, flush-drains (second consumer) refuted"


def stack_traces(res, tier, seed, wd):
    """One execution of the real stack, written as a queue-level and as a writer-level trace."""
    runs = 20 if tier == "quick" else 400
    tq = os.path.join(wd, "trace-stack-queue.ndjson")
    tw = os.path.join(wd, "trace-stack-writer.ndjson")
    s, _ = cvh(["stack-drive", "--seed", seed, "--runs", runs, "--out-queue", tq, "--out-writer", tw], timeout=3000)
    res.notes["stack_runs"] = s["runs"]
    log("[B] %d runs of the real stack client -> QueuingMetricSink -> buffered sink -> wire (%d calls)" % (s["runs"], s["calls"]))
    return tq, tw, s["runs"]


# ----------------------------------------------------------------------------- binding self-test (all engines)
def selftest_corruptions(res, trace_module, clean_run, corruptions, wd, name):
    """`clean_run` is one recorded run (list of events, accepted by the trace spec); `corruptions` is a list of
    (label, function(events) -> corrupted events or None). The trace spec must accept the clean run and reject
    every corrupted copy - otherwise the spec is not bound to what the code does (tool error)."""
    import copy
    runs = [("clean", clean_run)]
    for label, fn in corruptions:
        c = fn(copy.deepcopy(clean_run))
        if c is None:
            raise ToolError("binding self-test %s: corruption '%s' not applicable to the chosen run" % (name, label))
        runs.append((label, c))
    p = os.path.join(wd, "selftest-%s.ndjson" % name)
    starts = []
    n = 0
    with open(p, "w") as f:
        for label, evs in runs:
            starts.append(n + 1)
            for e in evs:
                f.write(json.dumps(e) + "\n")
                n += 1
    v = validate_trace(trace_module, p, wd, tag="self" + name)
    flagged = {b[2] for b in v["bad"]}
    if starts[0] in flagged:
        raise ToolError("binding self-test %s: the unmodified run is flagged: %s" % (name, v["bad"][:3]))
    missing = [runs[i][0] for i in range(1, len(runs)) if starts[i] not in flagged]
    if missing:
        raise ToolError("binding self-test %s: corrupted traces NOT rejected: %s" % (name, missing))
    res.notes["binding_selftest_" + name] = "accepted the recorded run, rejected: " + ", ".join(r[0] for r in runs[1:])
    log("[self] %s: %d corrupted traces rejected, clean trace accepted" % (name, len(runs) - 1))


def first_run(events, pred, maxlen=1500):
    """first run (reset..next reset) of a trace for which pred(run events) holds"""
    starts = [i for i, e in enumerate(events) if e.get("ev") == "reset"] + [len(events)]
    for a, b in zip(starts, starts[1:]):
        seg = events[a:b]
        if len(seg) <= maxlen and pred(seg):
            return seg
    return None
