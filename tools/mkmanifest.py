#!/usr/bin/env python3
"""Regenerates MANIFEST.json from the table below (single source of truth for the interface)."""
import json, os, sys
ROOT = os.path.dirname(os.path.dirname(os.path.abspath(__file__)))
props = [json.loads(l) for l in open(os.path.join(ROOT, "properties.jsonl"))]

MC = "model_checking"
CHECKS = {
 "C05": dict(engine="writer", cat=MC, ref="DESIGN.md 6/C05",
   text="TLC explores the complete state graph of Writer.tla (MultiLineWriter over BufWriter over a failing datagram writer, one action per code step) composed with the monitor WriterProp for every capacity 0..4 (thorough 0..7), terminator length 0..2 (0..3), metric lengths 0..cap+2 and every ok/err/interrupted outcome; every behaviour TLC exports is stepped through the real writer (attempts, results and both fill counters compared after every call) and every recorded trace of the real writer and of the real BufferedSpyMetricSink under seeded random histories is validated by TLC against the monitor's framing rules (whole lines, never above capacity, oversize metric alone and unmodified).",
   note="all-or-nothing underlying writer; std BufWriter as modelled (bound by replay); unbounded capacities only by sampling (drivers up to 1432) plus, in the thorough tier, the Apalache inductive invariant of WriterInt.tla when present",
   tech="TLC exhaustive model checking of an implementation model x property monitor; spec->code replay; code->spec trace validation"),
 "C06": dict(engine="writer", cat=MC, ref="DESIGN.md 6/C06",
   text="same engine as C05; the monitor keeps the list of acknowledged-but-unwritten metrics and requires every datagram to be exactly that list (plus possibly the current metric), emit Ok(n) to report the metric's length, flush Ok to leave nothing pending and drop to write what is left; checked exhaustively on the model and on every recorded trace of the real code - the scripted writer, the spy sink's channel, the real UDP / Unix socket adapters on loopback sockets (stalling and vanishing receivers, retried flushes after failures) and sinks shared between threads (events in lock order).",
   note="as C05; client.flush / queuing flush delegations are covered by the stack engine when built",
   tech="TLC exhaustive model checking + replay + trace validation against WriterProp conservation rules"),
 "C07": dict(engine="writer", cat=MC, ref="DESIGN.md 6/C07",
   text="same engine with every assignment of ok / error / interrupted to every attempted write (fault budget 2, thorough 3) in the exhaustive model, the same fault patterns replayed on the real writer through a scripted underlying writer, random fault rates up to 50% in the drivers and a bounded spy channel as a real fault injector; the monitor requires errors to be the socket's error, an Err-reported metric never to appear later, earlier metrics to leave whole with the next successful write, and no panic.",
   note="faults are all-or-nothing per write call; refused attempts inside the spy sink are not observable from outside (only their effects are checked)",
   tech="TLC exhaustive fault enumeration on the model; scripted-fault replay and fault-injecting trace validation on the code"),
 "C19": dict(engine="writer", cat=MC, ref="DESIGN.md 6/C19",
   text="same engine; monitor rules allow a write during emit only when the metric plus terminator does not fit in the remaining space or exactly fills the buffer, and require every write to carry all pending metrics; exhaustive on the model (mutants flush-one-early and no-reset-after-flush are refuted by TLC), replayed and trace-validated on the real code with long runs after the first automatic flush.",
   note="as C05",
   tech="TLC exhaustive model checking + replay + trace validation against WriterProp greedy-packing rules"),
 "C08": dict(engine="queue", cat=MC, ref="DESIGN.md 6/C08",
   text="TLC checks the complete state graph of Queue.tla (one action per linearisation point of queuing.rs: try_send, separate counter increments, recv, task, handler, panic/respawn, stop marker, helper send, release; handles cloned and dropped) composed with the monitor QueueProp, for capacities 0/1/2/unbounded, up to 3 handles and 3-5 metrics, every ok/err/panic outcome: delivered is a prefix of accepted (exactly once, in acceptance order, one at a time) plus the liveness property 'every accepted metric is eventually delivered' under weak fairness; the pre-repair behaviour (every clone's drop stops the shared worker) is refuted by TLC. TLC-simulated behaviours are replayed step by step on the real sink with a cooperative scheduler parked at the cfg hook points (results and counters compared after every step) and free-running multi-producer stress traces are validated by TLC against the monitor.",
   note="crossbeam-channel FIFO semantics trusted (bound by replay); liveness on the real code is bounded by a 10 s wait; capacity-0 queues are trace-validated only (whether the worker is parked inside recv is not observable)",
   tech="TLC safety+liveness model checking of an implementation model x monitor; scheduled replay of TLC behaviours; trace validation of free-running runs"),
 "C09": dict(engine="queue", cat=MC, ref="DESIGN.md 6/C09",
   text="same engine; liveness property C09_Live ([](no handles => <>(released and delivered = accepted))) and invariant C09_Safe checked by TLC for every capacity/occupancy/outcome pattern and every timing of the drop; the model with the stop marker lost on a full queue (pre-repair) is refuted. On the real code: scheduled replays include last drops on a completely full queue (helper thread path), drops while the worker is between recv and task, panics while the stop marker is queued; stress runs fill the queue to capacity before the last drop; the wrapped sink's own Drop, q.exit and the return of drop(handle) are observed.",
   note="as C08; 'eventually' = within 10 s on the real code",
   tech="TLC liveness checking + scheduled replay + trace validation"),
 "C10": dict(engine="queue", cat=MC, ref="DESIGN.md 6/C10",
   text="same engine; invariant |chan| <= capacity and the rule that try_send's result depends on room only, in the model exactly; on free-running traces with the slack of one dequeued-but-not-yet-handed-over metric (sound bounds MaxQ/MinQ), exact comparison in scheduled replays; wrapped sink thread id differs from every caller's; emit results never carry wrapped-sink errors; producers must all return while the wrapped sink is held blocked; every entry to the wrapped sink (emit, flush, stats) is logged with its thread and must never happen on a thread that is inside emit (model: Delegate action, mutant flush-in-emit refuted); 120 aligned-race rounds per quick run (worker held inside the wrapped sink, one free slot, 2-3 pinned producers released at a common instant inside the hook that precedes the room check) with the rule that nothing beyond the capacity is queued while the worker is busy.",
   note="as C08",
   tech="TLC model checking + scheduled replay + trace validation"),
 "C11": dict(engine="queue", cat=MC, ref="DESIGN.md 6/C11",
   text="same engine with panic outcomes: TLC explores every assignment of ok/err/panic including consecutive panics and panics while a stop is pending; delivered stays a prefix of accepted across respawns, nothing is redelivered, panics counter = number of panics; replayed and trace-validated on the real sink (panicking wrapped sink, Sentinel respawn).",
   note="as C08",
   tech="TLC model checking + scheduled replay + trace validation"),
 "C15": dict(engine="queue", cat=MC, ref="DESIGN.md 6/C15",
   text="same engine; try_send/incr_submitted and recv/incr_drained are separate model steps and a sampler performs the two loads of queued() separately: TLC shows the counters exact at quiescence and queued() never wrapping in every interleaving; on the real code counters are compared with the model after every replayed step, a sampling thread runs in the stress scenarios, quiescent counters must equal accepted / delivered counts, 8-producer contention phases and an aligned-race phase (pinned producers released together just before the submitted increment) expose non-atomic updates, and 'stalled increment' rounds hold a producer between try_send and the increment while a sampler reads (drained > submitted for a moment: queued() must stay 0 and must not panic).",
   note="as C08",
   tech="TLC model checking + scheduled replay with per-step counter comparison + trace validation"),
 "C16": dict(engine="queue", cat=MC, ref="DESIGN.md 6/C16",
   text="same engine with and without a configured handler: the monitor requires exactly one handler invocation per wrapped-sink error, same error payload, on the worker thread, before the next metric, never for accepted metrics; exhaustive on the model, replayed and trace-validated on the real builder-configured sink.",
   note="as C08",
   tech="TLC model checking + scheduled replay + trace validation"),
 "C18": dict(engine="holder", cat=MC, ref="DESIGN.md 6/C18",
   text="TLC explores all interleavings AND all stale-load choices of three threads running set/get/is_set programs on Holder.tla (compare_exchange -> cell write -> store; load -> cell read) under a view-based release/acquire semantics, composed with the monitor HolderProp (vector-clock happens-before: every cell read/write ordered after the previous conflicting access; one winner; get returns none or the winner's instance). The four memory orderings of the model are not typed in: they are read from a probe run of the real code through the cfg(cadence_verif) atomic shim, so weakening an Ordering in state.rs changes the model that is checked (store or load -> Relaxed are refuted, CAS -> Relaxed is correctly accepted). TLC-simulated interleavings are replayed on fresh SingletonHolders with the threads parked at the shim points, and scheduled + free-running traces are validated by TLC against HolderProp using the orderings logged in the trace.",
   note="release/acquire semantics as encoded in HolderProp; executions recorded on x86 are sequentially consistent, so non-SC behaviours are covered in the model only; if the holder is rewritten so that the shim sees a different operation shape only the trace-level rules apply (reported as MODEL-DIVERGENCE)",
   tech="TLC model checking of a weak-memory implementation model with orderings extracted from the source; scheduled replay; trace validation with a vector-clock monitor"),
 "C01": dict(engine="client", cat=MC, ref="DESIGN.md 6/C01",
   text="The grammar is written once in LineGrammar.tla. TLC enumerates every call shape of Line.tla (24 entry points x plain/tagged/quiet/macro x 16 combinations of optional sections x 5 prefix shapes x value shapes incl. empty packed lists x default/call tag lists x container none/default/override/both: 18 314 shapes over a tiny alphabet that contains every delimiter) and checks that an independent recursive-descent parser inverts Render and that the standalone constructors agree. Every shape is replayed on the real client (exact text), the macro shapes in one child process per global configuration, and every call of the seeded random drivers (hostile, multi-byte, delimiter-containing strings; 64-bit values; long lists) is validated by TLC: ClientTrace.tla computes the expected line of each recorded call with the same LineGrammar and compares it with what the recording sink received and with the returned metric.",
   note="byte fidelity of unbounded strings is by seeded instantiation; float numerals are accepted iff they parse back bit-identically (see C02); parse-back of real lines follows from exact equality with Render plus the model-level round-trip theorem",
   tech="TLC-checked grammar theorem over enumerated call shapes; shape replay; trace validation with the expected line computed in TLA+"),
 "C02": dict(engine="client", cat="exploration", ref="DESIGN.md 6/C02, 7",
   text="Values.tla model-checks the conversion rules (widening identity, Duration -> floor(ms) / ns, overflow at any list position rejects the whole call, the code's as_millis arithmetic equals the specification, closed formulas of the boundary classes) for ALL Durations and lists at five reduced word sizes. The harness instantiates the same boundary formulas at real scale (u64, 10^9 ns/s) on every Duration entry point, form and list position, plus the extremes of every integer width and float boundary patterns; numerals are predicted by an independent 128-bit digit loop, float numerals must parse back bit-identically; TLC judges every recorded call (ClientProp rules tagged C02).",
   note="TLC has 32-bit integers and no floats: real-scale fidelity is sampled (boundary classes derived from the model + seeded random values and bit patterns), hence exploration, not model checking, for the 'all i64/u64/f64' part",
   tech="TLC model checking of the conversion rules at reduced word size; model-derived boundary classes replayed at real scale; trace validation"),
 "C03": dict(engine="client", cat=MC, ref="DESIGN.md 6/C03",
   text="Client.tla models one call as a protocol (convert -> reject | format once -> sink.emit -> result / handler; macro unwrap) composed with ClientProp; TLC explores all sequences of 3 calls x 4 forms x valid/invalid x sink accept / refuse(kind) and refutes the protocol mutants (double emit, Ok on refusal, swallowed error, handler twice). On the real code every call of the shape replay (incl. refusing sink), the boundary classes and the random drivers (scripted refusing sink with unique error messages, with/without handler) is judged by TLC: exactly one emit iff valid, Ok(metric) = emitted text, IoError carries the sink's own error, InvalidInput for rejected values, quiet forms call the handler exactly once with that error and never on success.",
   note="sink refusals are injected by a scripted recording sink (all io::ErrorKinds behave alike in the code path)",
   tech="TLC model checking of a call-protocol model x monitor; replay; trace validation"),
 "C04": dict(engine="client", cat=MC, ref="DESIGN.md 6/C04",
   text="The decoration rule (default tags first in configuration order, then call tags in call order; per-call container id replaces the default for that call only) is LineGrammar.Decorate. Line.tla enumerates all 24 entry points x every form x 5 default-tag lists x 3 call-tag lists x container none/default/override/both - the matrix in which a kind or value type lacking decoration hides - and every shape is replayed on the real client; random clients with random default tags / container are trace-validated with the expected line computed in TLA+; macro shapes run against decorated global clients.",
   note="as C01",
   tech="TLC enumeration of the decoration matrix; shape replay; trace validation"),
 "C17": dict(engine="client", cat=MC, ref="DESIGN.md 6/C17",
   text="Line.tla's macro shapes (22 macro-callable entry points x 0-3 key=>value tags x decorated/undecorated global client) and Client.tla's macro form (unwrap of the global, quiet routing) are checked by TLC; on the real code each global-client configuration runs in its own fresh child process (set once per process, a second set must be ignored), including the unset state: same line in a single emit, failures only to the handler, panic iff unset, every macro argument evaluated exactly once (counting wrappers).",
   note="one process per configuration; 10 processes quick, >120 thorough",
   tech="TLC-checked shapes and protocol; per-process replay; trace validation"),
 "C20": dict(engine="c20", cat="exploration", ref="DESIGN.md 6/C20, 7",
   text="Panic is not an action of any model: every harness call runs under catch_unwind with overflow checks and debug assertions on, and any panic observed in the hostile enumerations of all engines (hostile constructor scenarios: capacities 0/1, empty/long terminators, unusable addresses and paths, tiny queues; client calls with empty/long/non-ASCII/delimiter strings, NaN/inf/-0.0, u64::MAX, i64::MIN, maximal Durations, empty and 100 000-element lists; writer and queue stress incl. the empty string, delimiters, multi-byte and 3 000-byte strings emitted on the queuing sink itself; every sink kind on real sockets; sinks shared between threads) is flagged C20 by the TLC monitors, as is an invalid value that is not reported as an error or a valid one that is not sent. The arithmetic guards (written <= capacity so capacity - written cannot underflow; queued() never wraps) are invariants checked by TLC on Writer.tla / Queue.tla.",
   note="'for all inputs' is not decided: exploration over the hostile classes the specifications name plus seeded random instantiation",
   tech="spec-driven hostile enumeration under catch_unwind judged by the TLC monitors; arithmetic guards as TLC invariants"),
 "C12": dict(engine="sock", cat=MC, ref="DESIGN.md 6/C12",
   text="BufSink.tla (threads x one mutex x the writer, the WriterProp monitor fed in lock order) is explored exhaustively by TLC for 2-3 threads: mutual exclusion, framing/conservation in every interleaving, per-thread order of buffered metrics; the mutants 'try_lock and skip under contention' and 'lock released between flush and buffering' are refuted. On the real code 2-4 free-running threads emit and flush through ONE shared StatsdClient over the buffered spy / UDP / Unix sinks (real loopback sockets); the lock hooks inside the guards and the write-attempt hook give the true order of the critical sections, the trace is serialised in that order and validated by TLC against WriterProp plus the rule that critical sections never overlap.",
   note="which contender wins the mutex next is the OS's choice: traces are validated, not replayed; loopback sockets deliver in order without loss at these volumes",
   tech="TLC model checking of all interleavings; trace validation of free-running threads serialised by lock hooks"),
 "C13": dict(engine="sock", cat=MC, ref="DESIGN.md 6/C13",
   text="An unbuffered sink is the writer with capacity 0 and an empty terminator (every metric alone, unmodified, returns its length), so WriterProp + Sock.tla (one datagram per accepted emit, TLC over concurrent emitters) are the model; binding is on REAL loopback sockets: UDP and Unix-datagram receivers plus a decoy that must stay empty, blocking and non-blocking, metrics of 0..65 507 bytes with multi-byte UTF-8, real failures (EMSGSIZE above 65 507 bytes, EAGAIN on a full Unix queue); buffered UDP/Unix sinks with capacities 0..70 000 and the default 512 are validated as C05 with terminator newline, including flush, drop and flush through client -> queuing wrapper. Every received datagram is compared byte for byte in TLC.",
   note="the weight is on trace validation of real sockets; the models are small",
   tech="trace validation of real loopback sockets against WriterProp/Sock.tla in TLC"),
 "C14": dict(engine="sock", cat=MC, ref="DESIGN.md 6/C14",
   text="Sock.tla models the two counter increments of every attempt as separate atomic steps with N concurrent emitters: TLC shows the four counters exact at every quiescent moment in every interleaving (a non-atomic increment and a misclassified drop are refuted). On the real sockets stats() is read after every call of the sequential runs and after join in the concurrent ones and compared in TLC with the monitor's own count of accepted / refused datagrams and bytes (refused sizes come from the write-attempt hook), with real refusals, and through a wrapping QueuingMetricSink.",
   note="mid-flight samples may lag (allowed by the statement); only quiescent reads are judged",
   tech="TLC model checking of the counter protocol; trace validation of stats() on real sockets"),
}

def main():
    checks = []
    for p in props:
        c = CHECKS.get(p["id"])
        if not c:
            continue
        checks.append({
            "property_id": p["id"],
            "quick_cmd": "./check %s --tier quick" % p["id"],
            "thorough_cmd": "./check %s --tier thorough" % p["id"],
            "evidence_file": "/verif/evidence/%s.json" % p["id"],
            "replay_cmd_template": "./check %s --replay {path}" % p["id"],
            "engine": c["engine"],
            "level_claimed": {"category": c["cat"], "text": c["text"], "design_ref": c["ref"]},
            "level_note": c["note"],
            "technique": c["tech"],
        })
    engines = {}
    for pid, c in CHECKS.items():
        engines.setdefault(c["engine"], []).append(pid)
    ENG_DESC = {
      "sock": ("spec/BufSink.tla + Sock.tla + WriterProp.tla + WriterTrace.tla; tools/eng_sock.py; harness/src/sink.rs", "TLA+ models of the shared sink and of the counter protocol; real loopback sockets; trace validation"),
      "client": ("spec/LineGrammar.tla + Line.tla + Client.tla + ClientProp.tla + ClientTrace.tla + Values.tla; tools/eng_client.py; harness/src/client.rs", "TLA+ grammar + call-protocol model x monitor; shape replay; per-process macro replay; trace validation"),
      "c20": ("tools/eng_c20.py (uses the writer, queue and client monitors)", "spec-driven hostile enumeration under catch_unwind"),
      "holder": ("spec/Holder.tla + spec/HolderProp.tla + spec/HolderTrace.tla; tools/eng_holder.py; harness/src/holder.rs", "TLA+ weak-memory model x happens-before monitor; orderings extracted from the running code; scheduled replay; trace validation"),
      "queue": ("spec/Queue.tla + spec/QueueProp.tla + spec/QueueTrace.tla; tools/eng_queue.py; harness/src/queue.rs", "TLA+ implementation model x monitor with liveness; cooperative-scheduler replay; free-running trace validation"),
      "writer": ("spec/Writer.tla + spec/WriterProp.tla + spec/WriterTrace.tla; tools/eng_writer.py; harness/src/writer.rs", "TLA+ implementation model x property monitor, TLC exhaustive + behaviour replay + trace validation"),
    }
    m = {
      "version": 1,
      "setup_cmd": "cd /verif && sh tools/setup.sh",
      "hooks": {
        "guard": "cadence_verif",
        "enable": "RUSTFLAGS --cfg cadence_verif, set in /verif/harness/.cargo/config.toml (the harness path-depends on /repo/cadence and /repo/cadence-macros)",
        "baseline_off_cmd": "cd /repo && cargo test --workspace --no-fail-fast --offline",
        "source_commits": ["9cd289e", "09d2281", "c133012", "04e7587", "ad2a254"],
        "add_only": True,
      },
      "engines": [{"name": k, "path": ENG_DESC.get(k, ("", ""))[0], "serves_properties": sorted(v), "kind_free_text": ENG_DESC.get(k, ("", ""))[1]} for k, v in engines.items()],
      "checks": checks,
      "notes": "Model-based verification with explicit TLA+ specifications (see DESIGN.md). ./check <id> --tier quick|thorough; exit 0 held / 1 VIOLATION line / 2 tool error. known_findings.json lists the three defects repaired by fix: commits in /repo.",
      "not_applicable": [{"property_id": p["id"], "reason": "engine under construction in this session - not claimed yet (planned, see DESIGN.md section 6)"} for p in props if p["id"] not in CHECKS],
    }
    json.dump(m, open(os.path.join(ROOT, "MANIFEST.json"), "w"), indent=1)
    print("MANIFEST.json: %d checks, %d not_applicable" % (len(checks), len(m["not_applicable"])))

if __name__ == "__main__":
    main()
