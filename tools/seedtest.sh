#!/bin/sh
# developer aid: confirm a seeded change in its scratch worktree, then run checks against it in /repo
#   tools/seedtest.sh <worktree> <name> <check ids...>
wt="$1"; name="$2"; shift 2
cd "$wt" || exit 2
pkg=cadence; [ -f cadence-macros/tests/seeded_demo.rs ] && pkg=cadence-macros
echo "--- confirm: builds, suite unchanged, demo fails with / passes without"
cargo build --workspace --offline -q 2>/dev/null && echo "build ok" || echo "BUILD FAILED"
mv $pkg/tests/seeded_demo.rs /tmp/seeded_demo_$$.rs
cargo test --workspace --no-fail-fast --offline 2>&1 | grep -E "^test result|FAILED|failed" | grep -v "^test result: ok" | head -8
mv /tmp/seeded_demo_$$.rs $pkg/tests/seeded_demo.rs
cargo test -p $pkg --test seeded_demo --offline 2>&1 | grep -E "^test result" | sed 's/^/with change:    /'
git diff -- cadence/src cadence-macros/src > /tmp/seeded_$name.patch
git apply -R /tmp/seeded_$name.patch
cargo test -p $pkg --test seeded_demo --offline 2>&1 | grep -E "^test result" | sed 's/^/without change: /'
git apply /tmp/seeded_$name.patch
echo "--- checks against the change applied to /repo"
cd /repo && git apply /tmp/seeded_$name.patch || { echo "PATCH DID NOT APPLY"; exit 3; }
for id in "$@"; do (cd /verif && VERIF_SKIP_MUTANTS=1 ./check $id 2>&1 | grep -E "^VIOLATION|^  rule=|TOOL-ERROR|^\[$id|MODEL-DIV" | cut -c1-330 | head -8); done
cd /repo && git checkout -- . && git status --short | head -3
