"""Socket / shared-sink engine: C12 C13 C14.

E  BufSink.tla: N threads x one mutex x the (fault-free) writer, composed with WriterProp fed in lock
   order: every interleaving; mutual exclusion; per-thread order; mutants try-lock-skip / unlock-early
   refuted.  Sock.tla: unbuffered sink with concurrent emitters, the two counter increments of one
   attempt as separate atomic steps: counters exact at quiescence, one datagram per accepted emit;
   mutants lost-update / drop-counts-as-sent refuted.
B  real loopback sockets: sequential histories on udp / unix / buffered udp / buffered unix sinks
   (blocking and non-blocking, default capacity, real failures: EMSGSIZE, EAGAIN on a full queue,
   flush and stats through client -> queuing wrapper) and concurrent threads through one shared
   client (buffered spy / udp / unix serialised in lock-hook order; unbuffered udp / unix).
   An unbuffered sink is the writer with capacity 0 and an empty terminator, so the same monitor
   (WriterProp + the counter monitor) judges all of them in TLC (WriterTrace.tla).
"""
import json
import os

from lib import *

SDEPS = ["BufSink.tla", "Sock.tla", "MC_Sinks.tla", "WriterProp.tla"]


def exhaustive(res, tier, wd):
    def buf(name, threads, prog, bug="none"):
        def go():
            cfg = os.path.join(wd, "bufsink-%s-%s.cfg" % (name, bug))
            write_cfg(cfg, constants={"Threads": "<-" + threads, "Prog": "<-" + prog, "Cap": 6, "Bug": bug},
                      invariants=["NoViolation", "MutualExclusion", "ThreadOrder"])
            r, out = tlc("MC_Sinks", cfg, wd, workers=4, timeout=1800, tag="bs" + name + bug)
            return r
        return tlc_cached("bufsink-%s-%s" % (name, bug), go, deps=SDEPS)

    def sock(threads, per, bug="none"):
        def go():
            cfg = os.path.join(wd, "sock-%d-%d-%s.cfg" % (threads, per, bug))
            write_cfg(cfg, constants={"Threads": "{" + ", ".join(str(i + 1) for i in range(threads)) + "}", "PerThread": per,
                                      "Lens": "{1, 3}", "Bug": bug}, invariants=["C14_Exact", "C13_Wire"])
            r, out = tlc("Sock", cfg, wd, workers=4, timeout=1800, tag="sock%d%d%s" % (threads, per, bug))
            return r
        return tlc_cached("sock-%d-%d-%s" % (threads, per, bug), go, deps=SDEPS)
    good = [buf("t2", "MCThreads", "MCProg2"), buf("t3", "MCThreads3", "MCProg3"), sock(2, 2)]
    if tier == "thorough":
        good += [buf("t3b", "MCThreads3", "MCProg3b"), sock(3, 2), sock(2, 3)]
    for r in good:
        if r.get("violated") or r.get("errors") or not r.get("ok"):
            raise ToolError("BufSink/Sock model violates its properties: %s %s" % (r.get("violated"), r.get("errors")))
        res.add_tlc(r)
    for name, r in (("try-lock-skip", buf("t2", "MCThreads", "MCProg2", "try-lock-skip")),
                    ("unlock-early", buf("t2", "MCThreads", "MCProg2", "unlock-early")),
                    ("lost-update", sock(2, 2, "lost-update")), ("drop-counts-as-sent", sock(2, 2, "drop-counts-as-sent"))):
        if not r["violated"]:
            raise ToolError("model mutant %s not refuted" % name)
    res.notes["model_mutants_refuted"] = ["try-lock-skip", "unlock-early", "lost-update", "drop-counts-as-sent"]
    log("[E] BufSink.tla + Sock.tla: %d distinct states, all interleavings; mutants refuted (cached=%s)" % (
        sum(r["distinct"] for r in good), all(r.get("cached") for r in good)))


def selftest(res, trace_file, wd):
    ev = read_ndjson(trace_file)
    def good(seg):
        return seg[0].get("kind") in ("budp", "bunix") and sum(1 for e in seg if e["ev"] == "att" and e["ok"] and e["len"] > 2) >= 2 \
            and any(e["ev"] == "stats" for e in seg)
    run = first_run(ev, good)
    if run is None:
        raise ToolError("socket binding self-test: no suitable run")
    def flip_byte(seg):
        for e in seg:
            if e["ev"] == "att" and e["ok"] and e["len"] > 2:
                e["hex"] = ("7a" if e["hex"][:2] != "7a" else "79") + e["hex"][2:]
                return seg
        return None
    def drop_datagram(seg):
        i = next(i for i, e in enumerate(seg) if e["ev"] == "att" and e["ok"] and e["len"] > 2)
        return seg[:i] + seg[i + 1:]
    def wrong_stats(seg):
        for e in reversed(seg):
            if e["ev"] == "stats":
                e["bs"] = e["bs"] + 1
                return seg
        return None
    selftest_corruptions(res, "WriterTrace", run,
                         [("one byte of a received datagram changed", flip_byte), ("a received datagram removed", drop_datagram),
                          ("bytes_sent off by one", wrong_stats)], wd, "sock")


def run(res, tier, seed, wd, replay=None):
    res.assumptions += [
        "loopback UDP / Unix datagram sockets deliver in order and do not drop (volumes are kept far below the socket buffers; a drainer thread empties them)",
        "bytes of a refused datagram cannot be observed: refused attempts carry their length only (from the write-attempt hook); their framing is not judged",
        "concurrent traces are serialised in the order of the critical sections reported by the lock hooks; for unbuffered sinks (no lock) every emit is judged on its own, its datagram found by content",
    ]
    exhaustive(res, tier, wd)
    build_harness()
    runs_d, ops = (27, 120) if tier == "quick" else (450, 200)
    runs_c = 27 if tier == "quick" else 540
    if replay:
        p = json.load(open(replay))
        seed = p.get("seed", seed)
    trD = os.path.join(wd, "trace-sink-drive.ndjson")
    trC = os.path.join(wd, "trace-sink-conc.ndjson")
    sd, _ = cvh(["sink-drive", "--seed", seed, "--runs", runs_d, "--ops", ops, "--out", trD], timeout=3000)
    sc, _ = cvh(["sink-conc", "--seed", seed, "--runs", runs_c, "--out", trC], timeout=3000)
    log("[B] real sockets: %d sequential runs (%d calls), %d concurrent runs (%d calls)" % (sd["runs"], sd["calls"], sc["runs"], sc["calls"]))
    res.sample({"kind": "sequential socket run", "sample": sd["sample"]})
    res.sample({"kind": "concurrent shared-sink run", "sample": sc["sample"]})
    allf = os.path.join(wd, "trace-all.ndjson")
    nev = concat([trD, trC], allf)
    v = validate_trace("WriterTrace", allf, wd, timeout=3000)
    if v["consumed"] != v["total"]:
        raise ToolError("trace not fully consumed")
    events = read_ndjson(allf) if v["bad"] else []
    for prop, rule, runline, line in v["bad"]:
        kind = events[runline - 1].get("kind", "")
        conc = kind.startswith("conc-")
        targets = set()
        if prop == "C14":
            targets.add("C14")
        elif prop == "C12":
            targets.add("C12")
        else:
            # framing / conservation / greedy / panic rules of WriterProp, observed on the wire
            targets.add("C12" if conc else "C13")
            if prop == "C20":
                targets.add("C20")
        payload = {"engine": "sock", "origin": {"how": "sink-conc" if conc else "sink-drive", "run": events[runline - 1].get("run"), "kind": kind},
                   "seed": seed, "trace_excerpt": run_segment(events, runline, upto=line)[-60:]}
        for tp in targets:
            res.flag(tp, "%s:%s" % (prop, rule), {"kind": kind, "run_line": runline, "line": line, "event": events[line - 1]}, payload)
    # ---- the shared client over a queuing wrapper over a buffered sink, 2-3 producers emitting and flushing (stack driver):
    # C12's promise - every acknowledged metric once and whole, each thread's metrics in its program order - then rests on the
    # queue handing over in acceptance order to ONE consumer; both levels of the same executions are judged
    tq, tw, nstack = stack_traces(res, tier, seed, wd)
    vq = validate_trace("QueueTrace", tq, wd, timeout=3000, tag="stackq")
    vw = validate_trace("WriterTrace", tw, wd, timeout=3000, tag="stackw")
    for v2, path, level in ((vq, tq, "queue"), (vw, tw, "writer")):
        evs2 = read_ndjson(path) if v2["bad"] else []
        for prop, rule, runline, line in v2["bad"]:
            head = evs2[runline - 1]
            if head.get("producers", 1) < 2:
                continue            # single-producer stack runs belong to the writer / queue engines
            if level == "queue" and prop not in ("C08", "C20"):
                continue            # order / exactly-once / loss of accepted metrics (and panics); other queue rules are not C12
            payload = {"engine": "sock", "origin": {"how": "stack-drive", "run": head.get("run"), "level": level}, "seed": seed,
                       "trace_excerpt": run_segment(evs2, runline, upto=line)[-60:]}
            for tp in ({"C12", "C20"} if prop == "C20" else {"C12"}):
                res.flag(tp, "%s:%s" % (prop, rule), {"kind": "stack-%s-level" % level, "run_line": runline, "line": line, "event": evs2[line - 1]}, payload)
        res.add_tlc({"distinct": v2["states"], "generated": v2["states"]})
    ntr = sd["runs"] + sc["runs"] + nstack
    res.cov["traces_validated_against_impl"] = ntr
    res.cov["evaluations"] = nev
    res.cov["distinct_nontrivial"] = ntr
    res.cov["rule"] = "evaluations = trace events (calls, datagrams received on real sockets, counters) judged by TLC; one trace = one sink from creation to drop; runs differ by sink kind / capacity / seed"
    res.add_tlc({"distinct": v["states"], "generated": v["states"]})
    res.sample({"kind": "trace excerpt (real sockets)", "events": read_ndjson(trD)[:10]})
    if not v["bad"]:
        selftest(res, trD, wd)
    log("[verdict] %d events of %d traces validated by TLC: %d flagged rules" % (nev, ntr, len(v["bad"])))
