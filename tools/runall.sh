#!/bin/sh
# developer aid: run every quick check on the current tree, validate evidence and manifest
cd /verif
bad=0
for p in C01 C02 C03 C04 C05 C06 C07 C08 C09 C10 C11 C12 C13 C14 C15 C16 C17 C18 C19 C20; do
  out=$(./check $p 2>&1); rc=$?
  echo "$out" | tail -1
  [ $rc -ne 0 ] && { bad=1; echo "  rc=$rc"; echo "$out" | grep -E "VIOLATION|TOOL-ERROR|rule=" | head -3; }
done
python3-vt - <<'P'
import json,jsonschema,glob
sch=json.load(open('/root/.vp/EVIDENCE.schema.json'))
for f in sorted(glob.glob('/verif/evidence/*.json')):
    jsonschema.validate(json.load(open(f)),sch)
jsonschema.validate(json.load(open('/verif/MANIFEST.json')),json.load(open('/root/.vp/MANIFEST.schema.json')))
print('evidence + manifest valid')
P
exit $bad
