#!/usr/bin/env python3
"""./check <property id> [--tier quick|thorough] [--replay <file>]"""
import os
import shutil
import sys
import traceback

sys.path.insert(0, os.path.dirname(os.path.abspath(__file__)))
from lib import *

ENGINE = {
    "C08": "queue", "C09": "queue", "C10": "queue", "C11": "queue", "C15": "queue", "C16": "queue",
    "C01": "client", "C02": "client", "C03": "client", "C04": "client", "C17": "client",
    "C12": "sock", "C13": "sock", "C14": "sock",
    "C18": "holder", "C20": "c20",
    "C05": "writer", "C06": "writer", "C07": "writer", "C19": "writer",
}
LEVEL = {"C02": "exploration", "C20": "exploration"}


def main():
    a = sys.argv[1:]
    if not a:
        print(__doc__)
        sys.exit(2)
    prop = a[0]
    tier = os.environ.get("VERIF_TIER", "quick")
    replay = None
    i = 1
    while i < len(a):
        if a[i] == "--tier":
            tier = a[i + 1]; i += 2
        elif a[i] == "--replay":
            replay = a[i + 1]; i += 2
        else:
            print("unknown argument", a[i]); sys.exit(2)
    if tier not in ("quick", "thorough"):
        print("bad tier"); sys.exit(2)
    seed = int(os.environ.get("VERIF_SEED", "1") or 1)
    if prop not in ENGINE:
        print("no check for", prop); sys.exit(2)
    eng = ENGINE[prop]
    wd = os.path.join(WORK, "%s-%s-%d" % (prop, tier, os.getpid()))
    shutil.rmtree(wd, ignore_errors=True)
    os.makedirs(wd)
    res = Result(prop, tier, seed, LEVEL.get(prop, "model_checking"))
    try:
        mod = __import__("eng_" + eng)
        mod.run(res, tier, seed, wd, replay=replay)
        rc = res.finish()
    except ToolError as e:
        log("TOOL-ERROR: %s" % e)
        rc = 2
    except Exception:
        traceback.print_exc()
        log("TOOL-ERROR: internal error in the runner")
        rc = 2
    finally:
        if not os.environ.get("VERIF_KEEP_WORK"):
            shutil.rmtree(wd, ignore_errors=True)
    sys.exit(rc)


if __name__ == "__main__":
    main()
