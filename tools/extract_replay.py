#!/usr/bin/env python3
"""Extract the JSON behaviours that a TLC run printed as <<"REPLAY", "...">> lines."""
import sys, re, json
def extract(src, dst, limit=None):
    n = 0
    with open(dst, "w") as out:
        for l in open(src, errors="replace"):
            if l.startswith('<<"REPLAY"'):
                m = re.match(r'<<"REPLAY", (".*")>>$', l.strip())
                if not m:
                    continue
                out.write(json.loads(m.group(1)) + "\n")
                n += 1
                if limit and n >= limit:
                    break
    return n
if __name__ == "__main__":
    print(extract(sys.argv[1], sys.argv[2]))
