#!/bin/sh
# developer aid: re-apply every seeded change to /repo and verify that the check of each property it breaks reports a VIOLATION
# (exclusive use of /repo: do not run soaks or vp runs at the same time)
cd /verif
fail=0
for d in seeded/${1:-S}*; do
  id=$(basename $d)
  props=$(python3 -c "import json;print(' '.join(json.load(open('$d/meta.json'))['breaks']))")
  git -C /repo apply /verif/$d/patch.diff || { echo "$id: PATCH DOES NOT APPLY"; fail=1; continue; }
  for p in $props; do
    out=$(VERIF_SKIP_MUTANTS=1 timeout 1200 ./check $p 2>&1); rc=$?
    if [ $rc -eq 1 ] && echo "$out" | grep -q "^VIOLATION property=$p "; then echo "$id $p: detected"; else echo "$id $p: NOT DETECTED (rc=$rc)"; fail=1; fi
  done
  git -C /repo checkout -- .
done
git -C /repo status --short
exit $fail
