"""Queue engine: C08 C09 C10 C11 C15 C16.

E  exhaustive TLC of spec/Queue.tla (one action per linearisation point of queuing.rs) composed
   with the monitor QueueProp: safety invariants + liveness (C08_Live, C09_Live) under fairness,
   capacities 0 (rendezvous) / 1 / 2 / unbounded, clones and drops, ok/err/panic outcomes, the
   counter sampler; the pre-repair stop policies (D2, D3) must be refuted.
A  TLC behaviours replayed step by step on the real sink by a cooperative scheduler parked at the
   cfg(cadence_verif) hook points; state compared after every step (model divergence), recorded.
B  free-running stress runs (1-4 producers on cloned handles, sampler, random clone/drop, gate
   closed / slow wrapped sink, scripted ok/err/panic, completely full queue at the last drop).
The recorded traces of A and B are validated by TLC against the monitor (spec/QueueTrace.tla).
"""
import json
import os

from lib import *

UNB = 1000000
QDEPS = ["Queue.tla", "QueueProp.tla", "MC_Queue.tla"]
SAFETY = ["NoViolation", "C08_Safe", "C10_Cap", "C10_NeverBlocked", "C15_Quiescent", "C15_NoWrap", "C11_Panics", "C09_Safe"]


def consts(cap, metrics=3, handles=2, outcomes=("ok", "err", "panic"), eh=True, policy="fixed", sampler=False,
           monitor=True, hist=False, minm=0):
    return {"Cap": cap, "MaxMetrics": metrics, "MaxHandles": handles,
            "Outcomes": "<-" + "MC_" + "".join(o[0] for o in outcomes), "HasEH": eh, "StopPolicy": policy,
            "Sampler": sampler, "Monitor": monitor, "Hist": hist, "GenMinM": minm}


def cfgfile(wd, name, c, live=True, invs=SAFETY, props=("C08_Live", "C09_Live")):
    p = os.path.join(wd, name + ".cfg")
    write_cfg(p, spec="LiveSpec" if live else "Spec", constants=c, invariants=invs, properties=props if live else ())
    return p


def exhaustive(res, tier, wd):
    if tier == "quick":
        grid = [("cap0", consts(0)), ("cap1", consts(1)), ("cap2", consts(2)), ("unb", consts(UNB)),
                ("noeh", consts(1, eh=False)), ("sampler", consts(1, handles=1, sampler=True))]
    else:
        # measured: each of the three larger configurations is 1.0-1.3 M distinct states, 2.5-3 min with liveness
        grid = [("cap0", consts(0)), ("cap1", consts(1)), ("cap2", consts(2)), ("unb", consts(UNB)),
                ("noeh", consts(1, eh=False)), ("sampler", consts(1, handles=1, sampler=True)),
                ("cap3", consts(3, metrics=4)), ("h3", consts(2, metrics=3, handles=3)), ("m4", consts(1, metrics=4, handles=2))]

    def one(item):
        name, c = item
        def go():
            r, out = tlc("MC_Queue", cfgfile(wd, "mc-" + name, c), wd, workers=5, timeout=3000, tag="mcq" + name, args=["-coverage", "1"])
            if not r["ok"] or r["violated"] or r["errors"]:
                r["tail"] = out[-2000:]
            return r
        return tlc_cached("queue-mc-%s-%s" % (name, json.dumps(c, sort_keys=True)), go, deps=QDEPS)
    rs = pmap(one, grid, par=3)
    for (name, c), r in zip(grid, rs):
        if r.get("violated") or r.get("errors") or not r.get("ok"):
            raise ToolError("Queue.tla violates %s in config %s (model/monitor inconsistent): %s" % (r.get("violated"), name, r.get("tail", "")))
        res.add_tlc(r)
    acts = check_vacuity("Queue.tla", rs)
    res.notes["action_coverage"] = "every action of Queue.tla taken: " + ", ".join("%s=%d" % kv for kv in sorted(acts.items()))
    res.notes["exhaustive_configs"] = {name: "%d distinct states, safety+liveness" % r["distinct"] for (name, c), r in zip(grid, rs)}
    log("[E] %d complete state graphs of Queue.tla incl. liveness (cached=%s): %d distinct states" % (
        len(grid), all(r.get("cached") for r in rs), sum(r["distinct"] for r in rs)))

    # the repaired defects must be found again by TLC when re-introduced in the model
    def legacy(policy):
        def go():
            r, out = tlc("MC_Queue", cfgfile(wd, "mc-" + policy, consts(2, policy=policy)), wd, workers=4, timeout=1200, tag="pol" + policy)
            return r
        return tlc_cached("queue-policy-" + policy, go, deps=QDEPS)
    for pol in ("legacy", "nohelper", "blocking-emit", "flush-in-emit"):
        r = legacy(pol)
        if not r["violated"]:
            raise ToolError("stop policy %s is not refuted by TLC: the properties cannot fail" % pol)
        res.notes["policy_" + pol] = "refuted: %s" % r["violated"]
    log("[E] model mutants refuted by TLC: legacy (D2), nohelper (D3), blocking-emit (C10), flush-in-emit (C10)")


def judge(res, verdict, events, origin):
    for prop, rule, runline, line in verdict["bad"]:
        seg = run_segment(events, runline, upto=line) if runline else []
        payload = {"engine": "queue", "origin": origin(runline), "first_bad_event_line": line,
                   "trace_excerpt": seg[-80:], "run_reset": events[runline - 1] if runline else None}
        res.flag(prop, rule, {"run_line": runline, "line": line, "event": events[line - 1] if 0 < line <= len(events) else None}, payload)


def run(res, tier, seed, wd, replay=None):
    res.assumptions += [
        "crossbeam-channel is a FIFO with try_send/send/recv as modelled in Queue.tla",
        "liveness on the real code is bounded: 'eventually' = within 10 s once the wrapped sink is released by the harness",
        "free-running traces are judged with the slack any linearisation allows (one dequeued-but-not-yet-handed-over metric)",
    ]
    if replay:
        return do_replay(res, replay, wd)
    exhaustive(res, tier, wd)
    build_harness()
    traces = []
    ntr = 0
    # ---- A: scheduled replay of TLC behaviours
    if HAVE_REPLAY:
        trA, nA = replay_behaviours(res, tier, seed, wd)
        traces.append(trA)
        ntr += nA
    # ---- B: free-running stress
    runs = 40 if tier == "quick" else 600
    trB = os.path.join(wd, "trace-stress.ndjson")
    s, _ = cvh(["queue-stress", "--seed", seed, "--runs", runs, "--stall-ms", 1300 if tier == "quick" else 3200, "--out", trB], timeout=6000)
    log("[B] %d free-running stress runs, %d emits, %d events" % (s["runs"], s["emits"], s["events"]))
    res.sample({"kind": "stress scenario", "cfg": s["sample"]})
    traces.append(trB)
    ntr += s["runs"]
    # the composed stack: the same execution judged at queue level (drain, stop, release of a real buffered sink)
    stack_model(res, wd)
    trSq, _tw, nstack = stack_traces(res, tier, seed, wd)
    traces.append(trSq)
    ntr += nstack
    allf = os.path.join(wd, "trace-all.ndjson")
    nev = concat(traces, allf)
    v = validate_trace("QueueTrace", allf, wd, timeout=3000)
    if v["consumed"] != v["total"]:
        raise ToolError("trace not fully consumed")
    events = read_ndjson(allf) if v["bad"] else []

    def origin(runline):
        e = events[runline - 1]
        if "beh" in e:
            return {"how": "queue-replay", "behaviour": e.get("behaviour")}
        if e.get("stack"):
            return {"how": "stack-drive", "run": e.get("run"), "args": ["--seed", seed]}
        return {"how": "queue-stress", "args": ["--seed", seed, "--runs", runs], "run": e.get("run")}
    judge(res, v, events, origin)
    res.cov["traces_validated_against_impl"] = ntr
    res.cov["evaluations"] = nev
    res.cov["distinct_nontrivial"] = ntr
    res.cov["rule"] = "evaluations = trace events of the real sink judged by the monitor; one trace = one scenario (sink creation .. release); scenarios differ by seed / TLC behaviour"
    res.add_tlc({"distinct": v["states"], "generated": v["states"]})
    res.sample({"kind": "trace excerpt (real code)", "events": [e for e in read_ndjson(trB)[:14]]})
    if not v["bad"]:
        selftest(res, trB, wd)
    log("[verdict] %d events of %d traces validated by TLC against QueueProp: %d flagged rules" % (nev, ntr, len(v["bad"])))


def selftest(res, trace_file, wd):
    ev = read_ndjson(trace_file)
    def good(seg):
        oks = [e["m"] for e in seg if e["ev"] == "eret" and e["ok"]]
        ent = [e["m"] for e in seg if e["ev"] == "wenter"]
        return len(oks) >= 3 and set(oks) <= set(ent) and not seg[0].get("bulk") and any(e["ev"] == "quiesce" for e in seg)
    run = first_run(ev, good)
    if run is None:
        raise ToolError("queue binding self-test: no suitable run")
    def drop_delivery(seg):
        m = next(e["m"] for e in seg if e["ev"] == "eret" and e["ok"])
        return [e for e in seg if not (e["ev"] in ("wenter", "wleave") and e.get("m") == m)]
    def dup_delivery(seg):
        i = next(i for i, e in enumerate(seg) if e["ev"] == "wleave")
        j = max(k for k in range(i) if seg[k]["ev"] == "wenter")
        return seg[:i + 1] + [seg[j], seg[i]] + seg[i + 1:]
    def refuse_delivered(seg):
        m = next(e["m"] for e in seg if e["ev"] == "wenter")
        for e in seg:
            if e["ev"] == "eret" and e["m"] == m:
                e["ok"] = False; e["msg"] = "channel full"; e["n"] = 0
                return seg
        return None
    def wrong_counter(seg):
        for e in seg:
            if e["ev"] == "quiesce":
                e["s"] = e["s"] + 1
                return seg
        return None
    selftest_corruptions(res, "QueueTrace", run,
                         [("a delivery removed", drop_delivery), ("a delivery duplicated", dup_delivery),
                          ("a delivered metric reported refused", refuse_delivered), ("submitted counter off by one", wrong_counter)], wd, "queue")


HAVE_REPLAY = True


def replay_behaviours(res, tier, seed, wd):
    """TLC simulates Queue.tla (Hist=TRUE); every exported behaviour is replayed on the real sink."""
    num = 120 if tier == "quick" else 1500
    jobs = [("c1", consts(1, metrics=4, handles=3, monitor=False, hist=True, minm=2)),
            ("c2", consts(2, metrics=5, handles=3, monitor=False, hist=True, minm=3)),
            ("c3noeh", consts(3, metrics=6, handles=2, eh=False, monitor=False, hist=True, minm=4)),
            ("unb", consts(UNB, metrics=5, handles=3, monitor=False, hist=True, minm=3)),
            ("c1full", consts(1, metrics=5, handles=2, outcomes=("ok", "panic"), monitor=False, hist=True, minm=4))]
    beh = os.path.join(wd, "qbehaviours.ndjson")
    open(beh, "w").close()

    def one(job):
        name, c = job
        cfg = cfgfile(wd, "gen-" + name, c, live=False, invs=["Export"])
        r, out = tlc("MC_Queue", cfg, wd, workers=1, timeout=1200, tag="qsim" + name,
                     args=["-simulate", "num=%d" % num, "-depth", "260", "-seed", str(seed * 7 + len(name))])
        if r["errors"]:
            raise ToolError("queue behaviour generation failed: %s\n%s" % (r["errors"], out[-1500:]))
        return out
    n = 0
    for o in pmap(one, jobs):
        n += extract_replay(o, beh)
    if n == 0:
        raise ToolError("TLC exported no queue behaviours")
    # vacuity: the interesting histories must be present
    helper = quiet_then_emit = panic_pending_stop = delegate = 0
    for l in open(beh):
        acts = [s["a"] for s in json.loads(l)["steps"]]
        if "Delegate" in acts:
            delegate += 1
        if "SpawnHelper" in acts:
            helper += 1
        if "DropQuiet" in acts and "EmitStart" in acts[acts.index("DropQuiet"):]:
            quiet_then_emit += 1
        if "StopTry" in acts and "TaskPanic" in acts[acts.index("StopTry"):]:
            panic_pending_stop += 1
    if helper == 0 or quiet_then_emit == 0 or panic_pending_stop == 0 or delegate == 0:
        raise ToolError("behaviour set is missing required histories: helper=%d clone-drop-then-emit=%d panic-with-stop-pending=%d flush/stats-delegation=%d" % (
            helper, quiet_then_emit, panic_pending_stop, delegate))
    trA = os.path.join(wd, "trace-qreplay.ndjson")
    s, _ = cvh(["queue-replay", "--in", beh, "--out", trA, "--maxdiv", 4 if tier == "quick" else 30], timeout=600 if tier == "quick" else 3000)
    log("[A] %d TLC behaviours (%d steps) replayed on the real sink under the cooperative scheduler: %d model divergences "
        "(full-queue last drop: %d, drop of a clone then emit on survivor: %d, panic while stop pending: %d)" % (
            s["behaviours"], s["steps"], s["model_divergences"], helper, quiet_then_emit, panic_pending_stop))
    res.divergences += s["first_divergences"]
    res.notes["replayed_behaviours"] = s["behaviours"]
    res.notes["replayed_steps"] = s["steps"]
    res.notes["model_divergence_count"] = s["model_divergences"]
    res.notes["behaviours_with_full_queue_last_drop"] = helper
    res.notes["behaviours_with_clone_drop_then_emit"] = quiet_then_emit
    res.notes["behaviours_with_panic_while_stop_pending"] = panic_pending_stop
    res.notes["behaviours_with_flush_stats_delegation"] = delegate
    sm = s["sample"]
    res.sample({"kind": "TLC behaviour replayed step by step", "cap": sm["cap"], "steps": [x["a"] for x in sm["steps"]][:40]})
    return trA, s["behaviours"]


def do_replay(res, path, wd):
    p = json.load(open(path))
    o = p["origin"]
    build_harness()
    tr = os.path.join(wd, "replay.ndjson")
    if o["how"] == "queue-stress":
        cvh(["queue-stress", "--out", tr] + [str(x) for x in o["args"]], timeout=3000)
        events = read_ndjson(tr)
        starts = [i for i, e in enumerate(events) if e["ev"] == "reset" and e.get("run") == o["run"]]
        seg = run_segment(events, starts[0] + 1)
    else:
        b = os.path.join(wd, "replay-beh.ndjson")
        open(b, "w").write(json.dumps(o["behaviour"]) + "\n")
        cvh(["queue-replay", "--in", b, "--out", tr], timeout=600)
        seg = read_ndjson(tr)
    one = os.path.join(wd, "replay-run.ndjson")
    with open(one, "w") as f:
        for e in seg:
            f.write(json.dumps(e) + "\n")
    v = validate_trace("QueueTrace", one, wd)
    events = seg
    for prop, rule, runline, line in v["bad"]:
        res.flag(prop, rule, {"line": line, "event": seg[line - 1]}, {"engine": "queue", "origin": o, "trace_excerpt": seg[-80:]})
    res.cov["traces_validated_against_impl"] = 1
    res.cov["evaluations"] = len(seg)
    res.cov["distinct_nontrivial"] = 2
    res.cov["states"] = res.cov["transitions"] = v["states"]
    res.sample({"replayed": path})
