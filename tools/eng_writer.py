"""Writer engine: C05 C06 C07 C19 (and the writer part of C20).

E  exhaustive TLC of spec/Writer.tla (implementation model x property monitor) over a grid of
   capacities / terminator lengths / metric lengths / fault budgets, plus seeded model mutants.
A  behaviours exported by TLC (exhaustive small + simulated long walks) stepped through the real
   cadence::ext::MultiLineWriter, compared after every call (model divergence), and recorded.
B  seeded random histories on the real writer and on the real BufferedSpyMetricSink, recorded.
The recorded traces of A and B are validated by TLC against the monitor (spec/WriterTrace.tla):
that verdict decides.
"""
import json
import os
import random

from lib import *

MUTANTS = ["flush-le", "no-reset", "term-uncounted", "bypass-ge", "swallow-flush-error"]
WDEPS = ["Writer.tla", "WriterProp.tla", "MC_Writer.tla"]
INVS = ["NoViolation", "FillWithinCapacity", "NoAutoFlush", "PendIsBuffer", "CountersAgree"]


def consts(cap, tlen, maxlen=None, faults=2, ops=0, bug="none", late=False, hist=False):
    return {"Cap": cap, "TLen": tlen, "MaxLen": cap + 2 if maxlen is None else maxlen, "MaxFaults": faults,
            "MaxOps": ops, "Bug": bug, "DropLate": late, "Hist": hist}


def exhaustive(res, tier, wd):
    caps = range(0, 5) if tier == "quick" else range(0, 8)
    tlens = range(0, 3) if tier == "quick" else range(0, 4)
    faults = 2 if tier == "quick" else 3
    grid = [(c, t) for c in caps for t in tlens]

    def one(ct):
        c, t = ct
        def go():
            cfg = os.path.join(wd, "mc-%d-%d.cfg" % (c, t))
            write_cfg(cfg, constants=consts(c, t, faults=faults), invariants=INVS)
            r, out = tlc("MC_Writer", cfg, wd, workers=2, timeout=1200, tag="mc%d%d" % (c, t), args=["-coverage", "1"])
            if not r["ok"] or r["violated"] or r["errors"]:
                r["tail"] = out[-1500:]
            return r
        return tlc_cached("writer-mc-%d-%d-%d" % (c, t, faults), go, deps=WDEPS)

    rs = pmap(one, grid)
    for (c, t), r in zip(grid, rs):
        if r.get("violated") or r.get("errors") or not r.get("ok"):
            raise ToolError("Writer.tla itself violates %s for Cap=%d TLen=%d (model/monitor inconsistent): %s" % (
                r.get("violated"), c, t, r.get("tail", "")))
        res.add_tlc(r)
    acts = check_vacuity("Writer.tla", rs)
    res.notes["action_coverage"] = "every action of Writer.tla taken: " + ", ".join("%s=%d" % kv for kv in sorted(acts.items()))
    res.notes["exhaustive_grid"] = "Cap in %s x TLen in %s, MaxLen=Cap+2, MaxFaults=%d, outcomes ok/err/intr: %d complete state graphs" % (
        list(caps), list(tlens), faults, len(grid))
    log("[E] %d complete state graphs of Writer.tla (cached=%s): %d distinct states, no invariant violated" % (
        len(grid), all(r.get("cached") for r in rs), sum(r["distinct"] for r in rs)))


def mutants(res, tier, wd):
    """The properties must be able to fail: every seeded model mutant has to be refuted by TLC."""
    def one(bug):
        def go():
            hit = []
            for (c, t) in [(3, 1), (2, 0), (4, 2), (1, 1)]:
                cfg = os.path.join(wd, "mut-%s-%d-%d.cfg" % (bug, c, t))
                write_cfg(cfg, constants=consts(c, t, bug=bug), invariants=INVS)
                r, out = tlc("MC_Writer", cfg, wd, workers=2, timeout=600, tag="mut" + bug)
                if r["violated"]:
                    hit.append({"Cap": c, "TLen": t, "violated": r["violated"]})
                    break
            return {"bug": bug, "refuted": bool(hit), "hit": hit}
        return tlc_cached("writer-mutant-" + bug, go, deps=WDEPS)
    rs = pmap(one, MUTANTS)
    missed = [r["bug"] for r in rs if not r["refuted"]]
    if missed:
        raise ToolError("model mutants not refuted by TLC (properties vacuous?): %s" % missed)
    res.notes["model_mutants_refuted"] = {r["bug"]: r["hit"][0]["violated"] for r in rs}
    log("[E] model mutants refuted: %s" % ", ".join(r["bug"] for r in rs))


MUT_POINT = "ELSE (IF cap - w < len + tlen THEN 0 ELSE w) + len + tlen"


def tlaps(res, wd):
    """Machine-checked proof (tlapm, SMT back end) that IndInv of WriterInt.tla is inductive for ALL capacities, terminator
    and metric lengths; the variant that forgets to count the terminator must NOT be provable."""
    def go():
        out = {"ok": False, "obligations": 0, "proved": 0, "mutant_unprovable": False}
        for variant in ("real", "mutant"):
            d = os.path.join(wd, "proof-" + variant)
            os.makedirs(d, exist_ok=True)
            for f in ("WriterInt.tla", "WriterIntOps.tla", "WriterIntProof.tla"):
                s = open(os.path.join(SPEC, f)).read()
                if variant == "mutant" and f == "WriterIntOps.tla":
                    if MUT_POINT not in s:
                        raise ToolError("WriterIntOps.tla: mutation point not found")
                    s = s.replace(MUT_POINT, MUT_POINT[:-len(" + tlen")])
                open(os.path.join(d, f), "w").write(s)
            rc, o = sh(["timeout", "900", "tlapm", "--threads", "8", "WriterIntProof.tla"], cwd=d, check=False, timeout=1000)
            m = re.search(r"All (\d+) obligations proved", o)
            f2 = re.search(r"(\d+)/(\d+) obligations failed", o)
            if variant == "real":
                if m:
                    out["obligations"] = out["proved"] = int(m.group(1))
                elif f2:
                    out["obligations"] = int(f2.group(2)); out["proved"] = int(f2.group(2)) - int(f2.group(1))
                    out["tail"] = o[-600:]
                else:
                    out["tail"] = o[-600:]
            else:
                out["mutant_unprovable"] = bool(f2) and not m
        out["ok"] = out["obligations"] > 0 and out["proved"] == out["obligations"] and out["mutant_unprovable"]
        return out
    r = tlc_cached("writerint-tlaps", go, deps=["WriterInt.tla", "WriterIntOps.tla", "WriterIntProof.tla"])
    if not r["ok"]:
        res.notes["tlaps"] = "NOT proved: %s" % r
        log("[E] TLAPS proof of WriterInt's inductive invariant NOT complete (claim stays at TLC grid + Apalache): %s" % r.get("tail", ""))
        return
    res.cov["obligations"] = res.cov.get("obligations", 0) + r["obligations"]
    res.cov["discharged"] = res.cov.get("discharged", 0) + r["proved"]
    res.cov["checker_cmd"] = (res.cov.get("checker_cmd", "") + " ; tlapm --threads 8 spec/WriterIntProof.tla").strip(" ;")
    res.notes["tlaps"] = "WriterIntProof.tla: all %d proof obligations discharged by tlapm (SMT); the terminator-not-counted variant is not provable" % r["obligations"]
    log("[E] TLAPS: IndInv of WriterInt.tla is inductive for ALL capacities: %d/%d obligations proved, mutant unprovable (cached=%s)" % (
        r["proved"], r["obligations"], r.get("cached")))


def apalache(res, wd):
    """All capacities: Apalache discharges the inductive invariant of the integer abstraction WriterInt.tla
    (symbolic Cap, TLen, len in Nat); the variant that forgets to count the terminator must be refuted.
    CountersAgree (checked by TLC on Writer.tla) ties the abstraction's shape invariant to the byte-level model."""
    def go():
        out = {"ok": False, "obligations": 2, "discharged": 0, "mutant_refuted": False}
        src = os.path.join(SPEC, "WriterInt.tla")
        od = os.path.join(wd, "apalache")
        os.makedirs(od, exist_ok=True)
        cmds = [["--cinit=ConstInit", "--inv=IndInv", "--length=0"],
                ["--cinit=ConstInit", "--init=IndInit", "--inv=IndInv", "--length=1"]]
        for i, c in enumerate(cmds):
            rc, o = sh(["timeout", "600", "apalache-mc", "check"] + c + ["--out-dir=" + os.path.join(od, "o%d" % i), src], check=False, timeout=700)
            if "EXITCODE: OK" in o and "no error" in o:
                out["discharged"] += 1
            else:
                out["tail"] = o[-800:]
        # mutant: terminator not counted in the fill count
        mdir = os.path.join(od, "mut")
        os.makedirs(mdir, exist_ok=True)
        ops = open(os.path.join(SPEC, "WriterIntOps.tla")).read()
        if MUT_POINT not in ops:
            raise ToolError("WriterIntOps.tla: mutation point not found")
        open(os.path.join(mdir, "WriterIntOps.tla"), "w").write(ops.replace(MUT_POINT, MUT_POINT[:-len(" + tlen")]))
        open(os.path.join(mdir, "WriterInt.tla"), "w").write(open(src).read())
        rc, o = sh(["timeout", "600", "apalache-mc", "check"] + cmds[1] + ["--out-dir=" + os.path.join(od, "o9"), os.path.join(mdir, "WriterInt.tla")], check=False, timeout=700)
        out["mutant_refuted"] = "Found 1 error" in o or "violated" in o
        out["ok"] = out["discharged"] == 2 and out["mutant_refuted"]
        return out
    r = tlc_cached("writerint-apalache", go, deps=["WriterInt.tla", "WriterIntOps.tla"])
    if not r["ok"]:
        # Apalache is optional tooling: its failure lowers the claim to "small constants", it is not a violation
        res.notes["apalache"] = "NOT discharged: %s" % r
        log("[E] Apalache inductive invariant NOT discharged (claim stays at the TLC grid): %s" % r.get("tail", ""))
        return
    res.cov["obligations"] = r["obligations"]
    res.cov["discharged"] = r["discharged"]
    res.cov["checker_cmd"] = "apalache-mc check --cinit=ConstInit [--init=IndInit] --inv=IndInv --length={0,1} spec/WriterInt.tla"
    res.notes["apalache"] = "inductive invariant of WriterInt.tla discharged for all Cap, TLen, len in Nat (base + step); terminator-not-counted variant refuted"
    log("[E] Apalache: inductive invariant of WriterInt.tla for ALL capacities: %d/%d obligations, mutant refuted (cached=%s)" % (
        r["discharged"], r["obligations"], r.get("cached")))


def gen_behaviours(res, tier, seed, wd):
    """TLC exports behaviours of the implementation model (with predicted observations)."""
    beh = os.path.join(wd, "behaviours.ndjson")
    open(beh, "w").close()
    jobs = []
    if tier == "quick":
        for c in range(0, 4):
            for t in range(0, 3):
                jobs.append(("mc", c, t, 2, 2))
        jobs.append(("mc", 3, 1, 3, 1))
        jobs.append(("mc", 2, 2, 3, 1))
        for (c, t) in [(2, 1), (3, 1), (4, 1), (5, 2), (8, 1), (6, 0)]:
            jobs.append(("sim", c, t, 14, 4, 60))
    else:
        for c in range(0, 5):
            for t in range(0, 3):
                jobs.append(("mc", c, t, 3, 2))
        jobs.append(("mc", 3, 1, 4, 2))
        jobs.append(("mc", 2, 0, 4, 2))
        for c in [2, 3, 4, 5, 6, 8, 11, 16]:
            for t in [0, 1, 2]:
                jobs.append(("sim", c, t, 40, 8, 500))

    def one(j):
        cfg = os.path.join(wd, "gen-%s.cfg" % "-".join(map(str, j)))
        if j[0] == "mc":
            _, c, t, ops, faults = j
            write_cfg(cfg, constants=consts(c, t, faults=faults, ops=ops, hist=True), invariants=["Export"])
            r, out = tlc("MC_Writer", cfg, wd, workers=2, timeout=1200, tag="gen" + "".join(map(str, j[1:])))
        else:
            _, c, t, ops, faults, num = j
            write_cfg(cfg, constants=consts(c, t, faults=faults, ops=ops, late=True, hist=True), invariants=["Export"])
            r, out = tlc("MC_Writer", cfg, wd, workers=1, timeout=1200, tag="sim" + "".join(map(str, j[1:])),
                         args=["-simulate", "num=%d" % num, "-depth", str(ops * 12 + 20), "-seed", str(seed + c * 31 + t)])
        if r["errors"]:
            raise ToolError("behaviour generation failed: %s\n%s" % (r["errors"], out[-1500:]))
        return out
    outs = pmap(one, jobs)
    n = 0
    for o in outs:
        n += extract_replay(o, beh)
    if n == 0:
        raise ToolError("TLC exported no behaviours")
    res.notes["behaviours_from_TLC"] = n
    return beh, n


def selftest_binding(res, trace_file, wd):
    """Corrupt one recorded run in three ways; the trace spec must reject all three."""
    ev = read_ndjson(trace_file)
    # find a run with an ok attempt and an ok emit return
    starts = [i for i, e in enumerate(ev) if e["ev"] == "reset"]
    chosen = None
    for s in starts:
        seg = run_segment(ev, s + 1)
        ai = [i for i, e in enumerate(seg) if e["ev"] == "att" and e["ok"] and e["len"] > 0]
        ri = [i for i, e in enumerate(seg) if e["ev"] == "ret" and e["ok"] and i > 0 and seg[i - 1]["ev"] == "call" and seg[i - 1]["op"] == "emit"]
        whole = seg[-1]["ev"] == "ret" and seg[-2]["ev"] != "ret" and any(e.get("op") == "drop" for e in seg)
        nofail = all(e["ok"] for e in seg if e["ev"] == "att")
        if ai and ri and whole and nofail and len(seg) < 400:
            chosen = (seg, ai[0], ri[0])
            break
    if not chosen:
        raise ToolError("binding self-test: no suitable run in trace")
    seg, a, r = chosen
    import copy
    c1 = copy.deepcopy(seg)
    h = c1[a]["hex"]
    c1[a]["hex"] = ("7a" if h[:2] != "7a" else "79") + h[2:]          # flip one datagram byte
    c2 = [e for i, e in enumerate(copy.deepcopy(seg)) if i != a]      # delete one attempt event
    c3 = copy.deepcopy(seg)
    c3[r]["ok"] = False                                               # change one result
    c3[r]["kind"] = "ConnectionRefused"
    p = os.path.join(wd, "selftest.ndjson")
    with open(p, "w") as f:
        for c in (seg, c1, c2, c3):
            for e in c:
                f.write(json.dumps(e) + "\n")
    v = validate_trace("WriterTrace", p, wd, tag="self")
    runs = sorted({b[2] for b in v["bad"]})
    n = len(seg)
    expected = [1 + n, 1 + 2 * n, 1 + 3 * n - 1]
    missing = [x for x in expected if x not in runs]
    if 1 in runs or missing:
        raise ToolError("binding self-test failed: clean run flagged=%s, corrupted runs not rejected=%s (%s)" % (1 in runs, missing, v["bad"]))
    res.notes["binding_selftest"] = "flipped datagram byte / deleted attempt event / changed result: all 3 rejected, unmodified run accepted"
    log("[self] corrupted traces rejected (3/3), clean trace accepted")


def judge(res, verdict, events, origin):
    """Turn the monitor's flags into violations with replay files."""
    for prop, rule, runline, line in verdict["bad"]:
        seg = run_segment(events, runline, upto=line) if runline else []
        payload = {"engine": "writer", "origin": origin(runline, events), "first_bad_event_line": line,
                   "trace_excerpt": seg[-60:], "run_reset": events[runline - 1] if runline else None}
        res.flag(prop, rule, {"run_line": runline, "line": line, "event": events[line - 1] if 0 < line <= len(events) else None}, payload)


def run(res, tier, seed, wd, replay=None):
    res.assumptions += [
        "the underlying writer is all-or-nothing per write call (the quantifier of C07)",
        "std::io::BufWriter behaves as modelled in Writer.tla (bound by replay: every behaviour's attempts, results and both fill counters are compared after every call)",
        "degenerate case excluded: empty metric with empty terminator (no observable bytes)",
        "refused attempts of the spy sink's channel cannot be observed from outside the sink: only their effect (Err result, nothing arrives) is checked",
    ]
    if replay:
        return do_replay(res, replay, wd)
    exhaustive(res, tier, wd)
    if tier == "thorough" or not os.environ.get("VERIF_SKIP_MUTANTS"):
        mutants(res, tier, wd)
        apalache(res, wd)
        tlaps(res, wd)
    build_harness()
    # ---- A: TLC behaviours -> real code
    beh, nbeh = gen_behaviours(res, tier, seed, wd)
    trA = os.path.join(wd, "trace-replay.ndjson")
    summ, _ = cvh(["writer-replay", "--in", beh, "--out", trA])
    log("[A] %d TLC behaviours (%d calls) stepped through the real MultiLineWriter: %d model divergences" % (
        summ["behaviours"], summ["calls"], summ["model_divergences"]))
    res.divergences += summ["first_divergences"]
    res.notes["replayed_behaviours"] = summ["behaviours"]
    res.notes["replayed_calls"] = summ["calls"]
    res.notes["model_divergence_count"] = summ["model_divergences"]
    res.sample({"kind": "TLC behaviour replayed on the real writer", "behaviour": summ["sample"]})
    # ---- B: random histories on the real code
    runs_mlw, runs_spy, ops = (40, 30, 250) if tier == "quick" else (600, 300, 400)
    trB1 = os.path.join(wd, "trace-drive-mlw.ndjson")
    trB2 = os.path.join(wd, "trace-drive-spy.ndjson")
    s1, _ = cvh(["writer-drive", "--kind", "mlw", "--seed", seed, "--runs", runs_mlw, "--ops", ops, "--out", trB1])
    s2, _ = cvh(["writer-drive", "--kind", "spy", "--seed", seed, "--runs", runs_spy, "--ops", ops, "--out", trB2])
    log("[B] random histories: mlw %d runs/%d calls, spy sink %d runs/%d calls, panics=%d" % (
        s1["runs"], s1["calls"], s2["runs"], s2["calls"], s1["panics"] + s2["panics"]))
    res.sample({"kind": "random history driver", "mlw": s1["sample"], "spy": s2["sample"]})
    # the composed stack (client -> queuing wrapper -> buffered sink): its wire is judged by the same monitor
    stack_model(res, wd)
    _tq, trS, nstack = stack_traces(res, tier, seed, wd)
    # the real socket adapters under the same writer (every sink kind on loopback sockets, receivers that stall or vanish):
    # "the socket" of C05-C07/C19 is the adapter of the code, not only the scripted writer
    runs_sock = 18 if tier == "quick" else 300
    trK = os.path.join(wd, "trace-sink-drive.ndjson")
    s3, _ = cvh(["sink-drive", "--seed", seed, "--runs", runs_sock, "--ops", 80, "--out", trK], timeout=3000)
    # ... and shared between threads: what a call promises (flush Ok = everything accepted before it is written, whole
    # lines per datagram) holds for every caller of a shared sink; events are ordered by the critical sections
    runs_conc = 12 if tier == "quick" else 240
    trC = os.path.join(wd, "trace-sink-conc.ndjson")
    s4, _ = cvh(["sink-conc", "--seed", seed, "--runs", runs_conc, "--out", trC], timeout=3000)
    log("[B] real sockets: %d runs/%d calls over every sink kind, %d concurrent shared-sink runs/%d calls" % (s3["runs"], s3["calls"], s4["runs"], s4["calls"]))
    # ---- verdict: TLC validates every recorded trace against the monitor
    allf = os.path.join(wd, "trace-all.ndjson")
    nev = concat([trA, trB1, trB2, trS, trK, trC], allf)
    v = validate_trace("WriterTrace", allf, wd, timeout=1800)
    if v["consumed"] != v["total"]:
        raise ToolError("trace not fully consumed: %s of %s" % (v["consumed"], v["total"]))
    events = read_ndjson(allf) if v["bad"] else []
    nA = sum(1 for _ in open(trA))

    def origin(runline, evs):
        e = evs[runline - 1]
        if "beh" in e:
            b = None
            with open(beh) as f:
                for i, l in enumerate(f):
                    if i + 1 == e["beh"]:
                        b = json.loads(l)
            return {"how": "writer-replay", "behaviour": b}
        if str(e.get("kind", "")).startswith("stack-"):
            return {"how": "stack-drive", "run": e.get("run"), "args": ["--seed", seed, "--runs", 20 if tier == "quick" else 400]}
        if str(e.get("kind", "")).startswith("conc-"):
            return {"how": "sink-conc", "kind": e.get("kind"), "run": e.get("run"), "args": ["--seed", seed, "--runs", runs_conc]}
        if e.get("kind") not in ("mlw", "spy"):
            return {"how": "sink-drive", "kind": e.get("kind"), "run": e.get("run"), "args": ["--seed", seed, "--runs", runs_sock, "--ops", 80]}
        return {"how": "writer-drive", "kind": e.get("kind"), "run": e.get("run"),
                "args": ["--kind", e.get("kind"), "--seed", seed, "--runs", runs_mlw if e.get("kind") == "mlw" else runs_spy, "--ops", ops]}
    judge(res, v, events, origin)
    ntraces = summ["behaviours"] + s1["runs"] + s2["runs"] + nstack + s3["runs"] + s4["runs"]
    res.cov["traces_validated_against_impl"] = ntraces
    res.cov["evaluations"] = nev
    res.cov["distinct_nontrivial"] = ntraces
    res.cov["rule"] = ("evaluations = trace events of the real code judged by the monitor in TLC; a trace is one behaviour/run "
                       "(reset..drop); behaviours come from TLC's state graph (distinct by construction), driver runs are distinct seeds")
    res.add_tlc({"distinct": v["states"], "generated": v["states"]})
    res.sample({"kind": "trace excerpt (real code)", "events": read_head(trB1, 12)})
    if not v["bad"]:
        selftest_binding(res, trA, wd)
    # the integer abstraction (Apalache: all capacities) against the code's own fill counters on the random histories
    try:
        vi = validate_trace("WriterIntTrace", trB1, wd, tag="wint")
    except ToolError as e:
        # divergence-only tooling must never turn into a tool error of the property check
        vi = {"checked": 0, "div": [["WriterIntTrace could not be evaluated", str(e)[:200]]]}
    res.notes["writerint_trace"] = "%d (written, buffered) snapshots of the real writer equal the prediction of WriterInt.tla and satisfy its inductive invariant; divergences: %d" % (vi.get("checked", 0), len(vi.get("div", [])))
    for d in vi.get("div", [])[:3]:
        res.divergences.append({"what": "WriterInt.tla no longer mirrors the fill counters of the code", "line_model_code": d})
    log("[B] WriterInt.tla vs the code's fill counters: %d snapshots checked, %d divergences" % (vi.get("checked", 0), len(vi.get("div", []))))
    log("[verdict] %d events of %d traces validated by TLC against WriterProp: %d flagged rules" % (nev, ntraces, len(v["bad"])))


def read_head(p, n):
    out = []
    with open(p) as f:
        for l in f:
            out.append(json.loads(l))
            if len(out) >= n:
                break
    return out


def do_replay(res, path, wd):
    """Re-run exactly the recorded case against the current tree."""
    p = json.load(open(path))
    o = p["origin"]
    build_harness()
    tr = os.path.join(wd, "replay-trace.ndjson")
    if o["how"] == "writer-replay":
        b = os.path.join(wd, "replay-beh.ndjson")
        open(b, "w").write(json.dumps(o["behaviour"]) + "\n")
        cvh(["writer-replay", "--in", b, "--out", tr])
        v = validate_trace("WriterTrace", tr, wd)
        events = read_ndjson(tr)
        judge(res, v, events, lambda r, e: o)
    else:
        if o["how"] == "stack-drive":
            cvh(["stack-drive", "--out-writer", tr, "--out-queue", tr + ".q"] + [str(x) for x in o["args"]], timeout=3000)
        else:
            cvh([o["how"], "--out", tr] + [str(x) for x in o["args"]], timeout=3000)
        events = read_ndjson(tr)
        # keep only the run in question
        starts = [i for i, e in enumerate(events) if e["ev"] == "reset" and e.get("run") == o["run"]]
        seg = run_segment(events, starts[0] + 1)
        one = os.path.join(wd, "replay-run.ndjson")
        with open(one, "w") as f:
            for e in seg:
                f.write(json.dumps(e) + "\n")
        v = validate_trace("WriterTrace", one, wd)
        judge(res, v, seg, lambda r, e: o)
    res.cov["traces_validated_against_impl"] = 1
    res.cov["evaluations"] = len(events)
    res.cov["distinct_nontrivial"] = 2
    res.cov["states"] = res.cov["transitions"] = v["states"]
    res.sample({"replayed": path})
