"""C20: no input makes the library panic - exploration driven by the specifications.

Every engine's drivers run their hostile corners under catch_unwind with overflow checks and debug
assertions on (harness profile), and the recorded traces are judged by the same TLC monitors: a panic
is never an action of any model, so each observed panic (or an invalid value that is not reported as
an error / a valid one that is not sent) is flagged with property C20. The arithmetic guards
(written <= capacity, queued() never wraps) are invariants of Writer.tla / Queue.tla checked by TLC.
"""
import os

from lib import *
import eng_writer
import eng_queue
import eng_client


def run(res, tier, seed, wd, replay=None):
    res.assumptions += ["universal quantification over all inputs is not decided: hostile classes named in the property + seeded random instantiation"]
    # arithmetic guards as model invariants (spec-only, cached)
    eng_writer.exhaustive(res, tier if tier == "quick" else "quick", wd)
    build_harness()
    cases = 0
    nev = 0
    total_bad = []

    def judge(spec, files, how):
        nonlocal nev
        allf = os.path.join(wd, "c20-%s.ndjson" % spec)
        nev += concat(files, allf)
        v = validate_trace(spec, allf, wd, timeout=3000, tag="c20" + spec)
        events = read_ndjson(allf) if v["bad"] else []
        for prop, rule, runline, line in v["bad"]:
            res.flag(prop, rule, {"engine": how, "run_line": runline, "line": line, "event": events[line - 1]},
                     {"engine": "c20/" + how, "origin": {"how": how, "seed": seed}, "trace_excerpt": run_segment(events, runline, upto=line)[-40:]})
        res.add_tlc({"distinct": v["states"], "generated": v["states"]})

    # public constructors and calls with hostile arguments
    ha = os.path.join(wd, "hostile-api.ndjson")
    s0, _ = cvh(["hostile-api", "--out", ha])
    cases += s0["attempts"]
    # client calls: hostile strings, extreme numbers, NaN/inf, maximal durations, empty and huge lists
    clients, calls = (90, 100) if tier == "quick" else (2000, 120)
    cd = os.path.join(wd, "client-drive.ndjson")
    s1, _ = cvh(["client-drive", "--seed", seed + 20, "--clients", clients, "--calls", calls, "--out", cd], timeout=3000)
    vr = os.path.join(wd, "values.ndjson")
    s2, _ = cvh(["values-replay", "--out", vr])
    cases += s1["calls"] + s2["calls"]
    judge("ClientTrace", [ha, cd, vr], "client")
    # writer: capacities 0/1/exact fit, empty and long terminators, faults
    runs, ops = (60, 200) if tier == "quick" else (800, 400)
    w1 = os.path.join(wd, "w-mlw.ndjson"); w2 = os.path.join(wd, "w-spy.ndjson")
    s3, _ = cvh(["writer-drive", "--kind", "mlw", "--seed", seed + 20, "--runs", runs, "--ops", ops, "--out", w1])
    s4, _ = cvh(["writer-drive", "--kind", "spy", "--seed", seed + 20, "--runs", runs // 2, "--ops", ops, "--out", w2])
    cases += s3["calls"] + s4["calls"]
    judge("WriterTrace", [w1, w2], "writer")
    # real sockets and shared sinks: every sink kind alone and under concurrent use (a poisoned lock or an arithmetic
    # overflow in a critical section is a panic of some later call)
    k1 = os.path.join(wd, "s-drive.ndjson"); k2 = os.path.join(wd, "s-conc.ndjson")
    s6, _ = cvh(["sink-drive", "--seed", seed + 20, "--runs", 40 if tier == "quick" else 600, "--ops", 30, "--out", k1], timeout=3000)
    s7, _ = cvh(["sink-conc", "--seed", seed + 20, "--runs", 24 if tier == "quick" else 400, "--out", k2], timeout=3000)
    cases += s6["calls"] + s7["calls"]
    judge("WriterTrace", [k1, k2], "sock")
    # queue: capacities 0/1, panicking wrapped sink, drops
    q = os.path.join(wd, "q.ndjson")
    s5, _ = cvh(["queue-stress", "--seed", seed + 20, "--runs", 20 if tier == "quick" else 300, "--out", q], timeout=3000)
    cases += s5["emits"]
    judge("QueueTrace", [q], "queue")
    log("[C20] %d hostile constructor scenarios, %d client calls, %d writer calls, %d queue emits under catch_unwind: panics observed client=%d writer=%d" % (
        s0["attempts"], s1["calls"] + s2["calls"], s3["calls"] + s4["calls"], s5["emits"], s0["panics"] + s1["panics"], s3["panics"] + s4["panics"]))
    res.cov["evaluations"] = cases
    res.cov["distinct_nontrivial"] = s0["attempts"] + s2["calls"] + s1["clients"] + s3["runs"] + s4["runs"] + s5["runs"] + s6["runs"] + s7["runs"]
    res.cov["traces_validated_against_impl"] = s0["attempts"] + s1["clients"] + s3["runs"] + s4["runs"] + s5["runs"] + s6["runs"] + s7["runs"]
    res.cov["rule"] = ("evaluations = calls executed under catch_unwind (overflow checks + debug assertions on); distinct_nontrivial = hostile "
                       "constructor scenarios + boundary-class calls + distinct seeded configurations (clients / writer runs / queue scenarios); "
                       "random calls inside a configuration are not counted as distinct")
    res.notes["trace_events_judged"] = nev
    res.sample({"kind": "hostile constructor scenarios", "names": s0["sample"][:12]})
    res.sample({"kind": "random client call", "sample": s1["sample"]})
    res.sample({"kind": "writer run", "sample": s3["sample"]})
