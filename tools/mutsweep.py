#!/usr/bin/env python3
"""developer aid: a sweep of small hand-listed mutations (operator flips, dropped statements, off-by-one) over the core files.
For each: apply to /repo, build, run the repository's own suite (a mutant the suite already kills is not interesting), run the
listed checks, revert. A mutant that survives both is either equivalent or a gap. Exclusive use of /repo.
   tools/mutsweep.py [first [last]]"""
import subprocess, sys, os, re, json
R = "/repo/"
M = [
 # second batch: places the repository's own suite does not reach
 ("q6", "cadence/src/sinks/queuing.rs", "        self.sink.flush()\n", "        Ok(())\n", ["C06", "C08"]),
 ("q7", "cadence/src/sinks/queuing.rs", "        self.sink.stats()\n", "        SinkStats::default()\n", ["C14"]),
 ("q8", "cadence/src/sinks/queuing.rs", "        self.worker.stop();\n        #[cfg(cadence_verif)]\n        crate::verif::point(\"q.drop.end\"", "        #[cfg(cadence_verif)]\n        crate::verif::point(\"q.drop.end\"", ["C09"]),
 ("q9", "cadence/src/sinks/queuing.rs", "let _ = sender.send(pill);", "let _ = sender.try_send(pill);", ["C09"]),
 ("q10", "cadence/src/sinks/queuing.rs", "crossbeam_channel::bounded(v)", "crossbeam_channel::bounded(v + 1)", ["C10"]),
 ("q11", "cadence/src/sinks/queuing.rs", "crossbeam_channel::unbounded()", "crossbeam_channel::bounded(1024)", ["C10"]),
 ("sy1", "cadence/src/sinks/spy.rs", "try_send", "send", ["C07", "C20"]),
 ("ud2", "cadence/src/sinks/udp.rs", "writer.flush()", "Ok(())", ["C06", "C13"]),
 ("un2", "cadence/src/sinks/unix.rs", "writer.flush()", "Ok(())", ["C06", "C13"]),
 ("ud3", "cadence/src/sinks/udp.rs", "self.stats.update(self.socket.send_to(buf, self.addr), buf.len())", "self.stats.update(self.socket.send_to(buf, self.addr), buf.len()).map(|_| buf.len())", ["C13"]),
 ("cl1", "cadence/src/client.rs", "self.sink.flush()", "Ok(())", ["C06"]),
 ("ma1", "cadence-macros/src/macros.rs", ".with_tag($tag_key, $tag_val)", ".with_tag($tag_val, $tag_key)", ["C17"]),
 ("st3", "cadence-macros/src/state.rs", "Ordering::Acquire", "Ordering::Relaxed", ["C18"]),
 ("b4", "cadence/src/builder.rs", "self.tags.push((Some(key), value));", "self.tags.insert(0, (Some(key), value));", ["C01", "C04"]),
]

def sh(cmd, cwd=None, timeout=1800):
    p = subprocess.run(cmd, shell=True, cwd=cwd, stdout=subprocess.PIPE, stderr=subprocess.STDOUT, text=True, timeout=timeout)
    return p.returncode, p.stdout

def main():
    a = int(sys.argv[1]) if len(sys.argv) > 1 else 0
    b = int(sys.argv[2]) if len(sys.argv) > 2 else len(M)
    for mid, f, old, new, checks in M[a:b]:
        src = open(R + f).read()
        if old not in src:
            print(mid, "PATTERN NOT FOUND"); continue
        open(R + f, "w").write(src.replace(old, new, 1))
        try:
            rc, out = sh("cargo build --workspace --offline -q 2>&1 | tail -3", cwd=R)
            rc, out = sh("cargo build --workspace --offline -q", cwd=R)
            if rc != 0:
                print(mid, "does not compile"); continue
            rc, out = sh("cargo test --workspace --no-fail-fast --offline 2>&1 | grep -E '^test [A-Za-z0-9_:]+ \.\.\. FAILED' | grep -v 'test_metric_error_cause_io_error\\|test_metric_error_description_io_error' | head -3", cwd=R)
            if out.strip():
                print(mid, "killed by the repository's own suite:", out.strip().splitlines()[0][:100]); continue
            res = []
            for c in checks:
                rc, out = sh("VERIF_SKIP_MUTANTS=1 timeout 900 ./check %s" % c, cwd="/verif")
                res.append("%s:%s" % (c, "detected" if rc == 1 and ("VIOLATION property=%s " % c) in out else "SURVIVED(rc=%d)" % rc))
            print(mid, " ".join(res))
        finally:
            sh("git checkout -- .", cwd=R)
        sys.stdout.flush()

main()
