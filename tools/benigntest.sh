#!/bin/sh
# developer aid: apply a behaviour-preserving change to /repo and run every quick check: none may report a VIOLATION (rc 1) or a
# tool error (rc 2); MODEL-DIVERGENCE lines are fine. Exclusive use of /repo.
#   tools/benigntest.sh <patch file> [check ids...]
patch="$1"; shift
ids="$@"; [ -z "$ids" ] && ids="C01 C02 C03 C04 C05 C06 C07 C08 C09 C10 C11 C12 C13 C14 C15 C16 C17 C18 C19 C20"
cd /repo && git apply "$patch" || { echo "PATCH DID NOT APPLY"; exit 3; }
bad=0
for id in $ids; do
  out=$(cd /verif && VERIF_SKIP_MUTANTS=1 ./check $id 2>&1); rc=$?
  nd=$(echo "$out" | grep -c "^MODEL-DIVERGENCE")
  if [ $rc -ne 0 ]; then bad=1; echo "$id rc=$rc  <-- FALSE ALARM / TOOL ERROR"; echo "$out" | grep -E "^VIOLATION|^  rule=|TOOL-ERROR" | cut -c1-300 | head -6; else echo "$id ok (divergence lines: $nd)"; fi
done
cd /repo && git checkout -- . && git clean -fdq -- cadence cadence-macros && git status --short | head -3
exit $bad
