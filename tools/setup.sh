#!/bin/sh
# MANIFEST.setup_cmd: build the harness offline and parse every specification.
set -e
cd "$(dirname "$0")/.."
export CARGO_NET_OFFLINE=true
mkdir -p work evidence replays
(cd harness && cargo build --offline --quiet)
cd spec
for f in *.tla; do
  case "$f" in *Proof.tla) continue;; esac   # TLAPS proofs are parsed and checked by tlapm (they import the TLAPS library module)
  tla-sany "$f" > ../work/sany.out 2>&1 || { cat ../work/sany.out; echo "SANY failed on $f"; exit 1; }
done

cd ..
python3 tools/warm.py
echo "setup ok"
