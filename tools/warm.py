#!/usr/bin/env python3
"""Warm the cache of spec-only TLC runs (quick tier) so that the per-property checks spend their
time on the code under test. Safe to skip: every check recomputes what is missing."""
import os, shutil, sys
sys.path.insert(0, os.path.dirname(os.path.abspath(__file__)))
from lib import *
wd = os.path.join(WORK, "warm-%d" % os.getpid())
os.makedirs(wd, exist_ok=True)
try:
    for eng, prop in (("writer", "C05"), ("queue", "C08"), ("client", "C01"), ("sock", "C13")):
        try:
            mod = __import__("eng_" + eng)
            res = Result(prop, "quick", 1, "model_checking")
            mod.exhaustive(res, "quick", wd)
            if hasattr(mod, "mutants"):
                mod.mutants(res, "quick", wd)
            if hasattr(mod, "apalache"):
                mod.apalache(res, wd)
            if hasattr(mod, "tlaps"):
                mod.tlaps(res, wd)
        except Exception as e:
            print("warm %s: %s" % (eng, e))
    try:
        stack_model(Result("C08", "quick", 1, "model_checking"), wd)
    except Exception as e:
        print("warm stack: %s" % e)
finally:
    shutil.rmtree(wd, ignore_errors=True)
print("cache warm")
