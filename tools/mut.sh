#!/bin/sh
# developer aid: ./tools/mut.sh <file-in-repo> <sed-expr> <check ids...>  - apply a mutation, run checks, revert
f="$1"; e="$2"; shift 2
cd /repo && sed -i "$e" "$f" && git diff --stat | tail -1
if git diff --quiet; then echo "MUTATION DID NOT APPLY"; exit 3; fi
for id in "$@"; do (cd /verif && VERIF_SKIP_MUTANTS=1 ./check $id 2>&1 | grep -E "VIOLATION|rule=|TOOL-ERROR|MODEL-DIV|^\[$id" | cut -c1-400); done
cd /repo && git checkout -- . 
