"""Client / line engine: C01 C02 C03 C04 C17 (and the client part of C20).

E  Line.tla: TLC enumerates every call shape (24 entry points x forms x optional sections x prefix x
   value shape x default/call tags x container, ~18k) and checks that an independent parser inverts
   the grammar (LineGrammar.Render) and that the standalone constructors agree;
   Client.tla: the call protocol (convert / reject / format once / emit once / result / handler /
   macro unwrap) x ClientProp for all sequences of 3 calls x forms x validity x sink outcomes, with
   seeded protocol mutants refuted; Values.tla: Duration conversion rules at reduced word size.
A  every shape exported by TLC is replayed on the real client (exact text comparison); macro shapes
   run in one fresh child process per global-client configuration; the boundary classes of
   Values.tla are instantiated at real scale on every Duration entry point and list position.
B  seeded random calls on every entry point (hostile / multi-byte strings, extreme numbers,
   refusing sink, with and without handler).
Verdict: ClientTrace.tla - TLC computes the expected line of every recorded call with LineGrammar
and judges the call protocol with ClientProp.
"""
import collections
import json
import os

from lib import *

LDEPS = ["Line.tla", "LineGrammar.tla", "Line.cfg", "LineGen.cfg"]
CDEPS = ["Client.tla", "ClientProp.tla", "LineGrammar.tla"]
VDEPS = ["Values.tla"]
PROTO_MUTANTS = ["double-emit", "ok-on-refuse", "swallow-error", "handler-twice"]


def line_model(res, wd):
    def go():
        r, out = tlc("Line", os.path.join(SPEC, "Line.cfg"), wd, workers=8, timeout=1800, tag="line")
        return r
    r = tlc_cached("line-roundtrip", go, deps=LDEPS)
    if r.get("violated") or r.get("errors") or not r.get("ok"):
        raise ToolError("Line.tla: the grammar theorems fail: %s %s" % (r.get("violated"), r.get("errors")))
    res.add_tlc(r)
    res.notes["line_shapes_checked"] = r["distinct"]
    log("[E] Line.tla: %d call shapes, Parse(Render(x)) = x and standalone constructors agree (cached=%s)" % (r["distinct"], r.get("cached")))
    # export of the shapes (also spec-only, cached as a file)
    os.makedirs(CACHE, exist_ok=True)
    key = hashlib.sha256((spec_hash(LDEPS) + "shapes").encode()).hexdigest()[:24]
    shapes = os.path.join(CACHE, "shapes-%s.ndjson" % key)
    if not os.path.exists(shapes) or os.environ.get("VERIF_NOCACHE"):
        r2, out = tlc("Line", os.path.join(SPEC, "LineGen.cfg"), wd, workers=8, timeout=1800, tag="linegen")
        if r2["errors"]:
            raise ToolError("shape export failed: %s" % r2["errors"])
        tmp = shapes + ".tmp"
        open(tmp, "w").close()
        n = extract_replay(out, tmp)
        if n == 0:
            raise ToolError("no shapes exported")
        os.replace(tmp, shapes)
    return shapes


def protocol_model(res, wd):
    def run(bug, handler=True, gset=True):
        def go():
            cfg = os.path.join(wd, "client-%s-%s-%s.cfg" % (bug, handler, gset))
            write_cfg(cfg, constants={"MaxCalls": 3, "Kinds": "<-MCKinds", "HasHandler": handler, "GlobalSet": gset, "Bug": bug},
                      invariants=["NoViolation"])
            r, out = tlc("MC_Client", cfg, wd, workers=2, timeout=600, tag="cl" + bug)
            return r
        return tlc_cached("client-proto-%s-%s-%s" % (bug, handler, gset), go, deps=CDEPS + ["MC_Client.tla"])
    for (h, g) in [(True, True), (False, True), (True, False)]:
        r = run("none", h, g)
        if r.get("violated") or r.get("errors") or not r.get("ok"):
            raise ToolError("Client.tla violates the monitor: %s %s" % (r.get("violated"), r.get("errors")))
        res.add_tlc(r)
    for b in PROTO_MUTANTS:
        if not run(b)["violated"]:
            raise ToolError("protocol mutant %s not refuted" % b)
    res.notes["protocol_mutants_refuted"] = PROTO_MUTANTS
    log("[E] Client.tla: all sequences of 3 calls x 4 forms x valid/invalid x sink outcomes; mutants refuted: %s" % ", ".join(PROTO_MUTANTS))


def values_model(res, wd):
    sizes = [(31, 31, 3, 2), (63, 63, 4, 5), (15, 40, 2, 3), (100, 7, 10, 10), (255, 255, 10, 10)]
    def one(sz):
        def go():
            cfg = os.path.join(wd, "values-%d-%d-%d-%d.cfg" % sz)
            write_cfg(cfg, constants={"MaxU": sz[0], "MaxS": sz[1], "NsPerMs": sz[2], "MsPerS": sz[3]},
                      invariants=["CodeMatchesSpec", "Boundary", "Truncates", "ListRule"])
            r, out = tlc("Values", cfg, wd, workers=2, timeout=900, tag="val%d" % sz[0])
            return r
        return tlc_cached("values-%s" % (sz,), go, deps=VDEPS)
    for sz, r in zip(sizes, pmap(one, sizes)):
        if r.get("violated") or r.get("errors") or not r.get("ok"):
            raise ToolError("Values.tla fails at size %s: %s %s" % (sz, r.get("violated"), r.get("errors")))
        res.add_tlc(r)
    log("[E] Values.tla: conversion rules + boundary formulas for all Durations at %d reduced word sizes" % len(sizes))


def exhaustive(res, tier, wd):
    shapes = line_model(res, wd)
    protocol_model(res, wd)
    values_model(res, wd)
    return shapes


def run(res, tier, seed, wd, replay=None):
    res.assumptions += [
        "float numerals are not predicted independently: an emitted float numeral is accepted iff it parses back to the bit-identical f64 (sampled, not exhaustive: boundary patterns + seeded random bit patterns)",
        "real-scale integer numerals are predicted by an independent 128-bit digit loop in the harness; Duration validity by 128-bit arithmetic, the boundary formulas being model-checked in Values.tla at reduced word size",
        "Parse-back of real lines is implied by exact equality with LineGrammar.Render plus the round-trip theorem TLC checks on Line.tla over the tiny alphabet",
    ]
    if replay:
        return do_replay(res, replay, wd)
    shapes = exhaustive(res, tier, wd)
    build_harness()
    traces = []
    # ---- A: every TLC shape on the real client
    trA = os.path.join(wd, "trace-shapes.ndjson")
    mshapes = os.path.join(wd, "macro-shapes.ndjson")
    s, _ = cvh(["client-replay", "--in", shapes, "--out", trA, "--macro-out", mshapes], timeout=1800)
    log("[A] %d TLC call shapes replayed on the real client: %d model divergences (text TLC rendered vs text emitted)" % (s["shapes"], s["model_divergences"]))
    res.divergences += s["first_divergences"]
    res.notes["replayed_shapes"] = s["shapes"]
    res.notes["model_divergence_count"] = s["model_divergences"]
    res.sample({"kind": "TLC call shape replayed", "shape": s["sample"]})
    traces.append(trA)
    ntr = s["shapes"]
    # macro shapes: one process per global configuration
    groups = collections.OrderedDict()
    for l in open(mshapes):
        sh = json.loads(l)
        groups.setdefault((tuple(sh["dtags"]), sh["dcid"]), []).append(l)
    procs = 0
    for i, (k, ls) in enumerate(groups.items()):
        f = os.path.join(wd, "mgrp%d.ndjson" % i)
        open(f, "w").write("".join(ls))
        out = os.path.join(wd, "trace-macro-%d.ndjson" % i)
        cvh(["macro-child", "--in", f, "--out", out, "--seed", seed + i])
        traces.append(out); procs += 1; ntr += len(ls)
    # unset global client and random configurations
    nrand = 6 if tier == "quick" else 120
    for i in range(nrand):
        out = os.path.join(wd, "trace-macro-r%d.ndjson" % i)
        args = ["macro-child", "--out", out, "--seed", seed * 1000 + i, "--calls", 40]
        if i % 3 == 0:
            args.append("--unset")
        elif i % 3 == 1:
            args.append("--late-set")
        sm, _ = cvh(args)
        traces.append(out); procs += 1; ntr += sm["calls"]
    log("[A] macros: %d child processes (one per global-client configuration, incl. unset)" % procs)
    res.notes["macro_processes"] = procs
    # boundary classes at real scale
    trV = os.path.join(wd, "trace-values.ndjson")
    sv, _ = cvh(["values-replay", "--out", trV])
    res.divergences += sv["first_divergences"]
    res.notes["value_boundary_calls"] = sv["calls"]
    res.sample({"kind": "boundary classes of Values.tla at real scale", "sample": sv["sample"]})
    traces.append(trV); ntr += sv["calls"]
    # ---- B: random calls
    clients, calls = (60, 100) if tier == "quick" else (1500, 120)
    trB = os.path.join(wd, "trace-drive.ndjson")
    sb, _ = cvh(["client-drive", "--seed", seed, "--clients", clients, "--calls", calls, "--out", trB], timeout=3000)
    log("[B] %d random calls on %d clients (a third with hostile strings): panics=%d" % (sb["calls"], sb["clients"], sb["panics"]))
    res.sample({"kind": "random call", "sample": sb["sample"]})
    traces.append(trB); ntr += sb["calls"]
    # ---- verdict
    allf = os.path.join(wd, "trace-all.ndjson")
    nev = concat(traces, allf)
    v = validate_trace("ClientTrace", allf, wd, timeout=3000)
    if v["consumed"] != v["total"]:
        raise ToolError("trace not fully consumed")
    events = read_ndjson(allf) if v["bad"] else []
    for prop, rule, runline, line in v["bad"]:
        seg = run_segment(events, runline, upto=line)
        # the call in question: from its call event to the flagged event
        j = line - 1
        while j > 0 and events[j]["ev"] != "call":
            j -= 1
        callseg = events[j:line + 2]
        res.flag(prop, rule, {"run_line": runline, "line": line, "call": callseg[:6]},
                 {"engine": "client", "origin": {"how": "trace", "cfg": events[runline - 1], "call_events": callseg},
                  "trace_excerpt": seg[-30:]})
    res.cov["traces_validated_against_impl"] = ntr
    res.cov["evaluations"] = nev
    res.cov["distinct_nontrivial"] = s["shapes"] + sv["calls"]
    res.cov["rule"] = ("evaluations = trace events of real calls judged in TLC (expected line computed by LineGrammar); traces = calls; "
                       "distinct_nontrivial counts the TLC-enumerated shapes and boundary classes (distinct by construction), random calls not counted")
    res.add_tlc({"distinct": v["states"], "generated": v["states"]})
    res.sample({"kind": "trace excerpt (real code)", "events": read_ndjson(trB)[:8]})
    if not v["bad"]:
        selftest(res, trA, wd)
    log("[verdict] %d events of %d calls validated by TLC against LineGrammar/ClientProp: %d flagged rules" % (nev, ntr, len(v["bad"])))


def selftest(res, trace_file, wd):
    ev = read_ndjson(trace_file)[:4000]
    def good(seg):
        return any(e["ev"] == "emit" for e in seg) and any(e["ev"] == "end" and e.get("ok") for e in seg) \
            and any(e["ev"] == "call" and e["tags"] for e in seg)
    run = first_run(ev, good)
    if run is None:
        raise ToolError("client binding self-test: no suitable run")
    def flip_char(seg):
        for e in seg:
            if e["ev"] == "emit":
                e["text"] = e["text"].replace("|", "!", 1)
                return seg
        return None
    def drop_emit(seg):
        return [e for e in seg if e["ev"] not in ("emit", "sret")]
    def swap_tags(seg):
        for e in seg:
            if e["ev"] == "call" and e["tags"]:
                e["tags"] = list(reversed(e["tags"])) + [{"bare": True, "k": "", "v": "extra"}]
                return seg
        return None
    def wrong_result(seg):
        for e in seg:
            if e["ev"] == "end" and e.get("ok"):
                e["text"] = e["text"] + "x"
                return seg
        return None
    selftest_corruptions(res, "ClientTrace", run,
                         [("one character of the emitted line changed", flip_char), ("the emit removed", drop_emit),
                          ("the call's tag list changed", swap_tags), ("the returned metric changed", wrong_result)], wd, "client")


def do_replay(res, path, wd):
    """The recorded call is re-validated: the trace excerpt carries cfg + call; the harness re-runs the
    whole deterministic driver only for random origins, so here the excerpt itself is re-judged after
    re-running the shape replay (cheap) to make sure the current tree still produces it."""
    p = json.load(open(path))
    build_harness()
    shapes = exhaustive(res, "quick", wd)
    tr = os.path.join(wd, "replay.ndjson")
    cvh(["client-replay", "--in", shapes, "--out", tr, "--macro-out", os.path.join(wd, "m.ndjson")], timeout=1800)
    trB = os.path.join(wd, "replay-drive.ndjson")
    cvh(["client-drive", "--seed", p.get("seed", 1), "--clients", 60, "--calls", 100, "--out", trB], timeout=1800)
    trV = os.path.join(wd, "replay-values.ndjson")
    cvh(["values-replay", "--out", trV])
    allf = os.path.join(wd, "all.ndjson")
    nev = concat([tr, trB, trV], allf)
    v = validate_trace("ClientTrace", allf, wd, timeout=3000)
    events = read_ndjson(allf) if v["bad"] else []
    for prop, rule, runline, line in v["bad"]:
        res.flag(prop, rule, {"line": line, "event": events[line - 1]}, {"engine": "client", "origin": p["origin"]})
    res.cov["traces_validated_against_impl"] = 1
    res.cov["evaluations"] = nev; res.cov["distinct_nontrivial"] = 2
    res.cov["states"] = res.cov["transitions"] = v["states"]
    res.sample({"replayed": path})
