import json,glob,os,re
s=open('/verif/DESIGN.md').read()
i=s.index("<!-- seeded-table:begin"); j=s.index("<!-- seeded-table:end -->")
rows=[]
for d in sorted(glob.glob('/verif/seeded/S*')):
    m=json.load(open(d+'/meta.json'))
    rows.append("| `%s` | %s | %s | %s |"%(os.path.basename(d), ", ".join(m["breaks"]), m["needs_to_manifest"].replace("|","/"), "<br>".join(x.replace("|","/") for x in m["detected_by"])))
missed=sum(1 for d in glob.glob('/verif/seeded/S*') if 'MISSED' in open(d+'/meta.json').read())
intro="""<!-- seeded-table:begin (regenerate from seeded/*/meta.json) -->
%d changes written by fresh sub-agents in nine batches (each agent saw only one property's text; second-round agents were also
told which ideas had already been used for that property). All were confirmed (`tools/seedtest.sh`: builds, existing suite
unchanged, demonstration fails with / passes without the change) before being run against the checks. **%d were missed at
first**, two more crashed a harness driver (tool error instead of a verdict); each of these pointed at a dimension the drivers did
not vary or at an unguarded call, the machinery was strengthened (never the property, never a check loosened), and all %d are
now caught by the quick tier.

| Seeded change | Breaks | Needs, to manifest | Caught by |
|---|---|---|---|
"""%(len(rows),missed,len(rows))
s=s[:i]+intro+"\n".join(rows)+"\n"+s[j:]
open('/verif/DESIGN.md','w').write(s)
print(len(rows),missed)
