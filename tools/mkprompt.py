#!/usr/bin/env python3
"""developer aid: write the prompt for a seeding sub-agent (property text only) to /tmp/prompt-<id>.txt"""
import json, sys
props = {json.loads(l)['id']: json.loads(l) for l in open('/verif/properties.jsonl')}
def prompt(pid, avoid=""):
    p = props[pid]
    extra = ("\nAvoid this idea, which has already been used: " + avoid + "\n") if avoid else ""
    return f"""You are helping to evaluate a verification framework by writing ONE realistic buggy change ("seeded defect") to a Rust library.

Work ONLY inside the git worktree /tmp/wt-{pid} (a checkout of the 56quarters/cadence StatsD client library: crates `cadence` and `cadence-macros`). Do not read or write anything under /verif or /repo. There is no network; build with `cargo ... --offline`.

The property your change must break:

  Title: {p['title']}
  Statement: {p['statement']}
  Quantified over: {p['quantifier']['text']}
{extra}
Your task:
1. Read the relevant source in /tmp/wt-{pid}.
2. Make a small, realistic change to the LIBRARY source (not to tests) that violates the property above, the kind of mistake a maintainer could plausibly make in a refactor or 'optimisation'. It must
   - still compile (`cargo build --workspace --offline`),
   - still pass the existing test suite: run `cargo test --workspace --no-fail-fast --offline` in the worktree; note that exactly two tests, `types::tests::test_metric_error_cause_io_error` and `types::tests::test_metric_error_description_io_error`, fail on the ORIGINAL code as well and must be ignored; every other test must still pass,
   - NOT be exposed by ordinary use at once: it should need something specific to manifest - a particular interleaving, a fault at a particular point, a multi-step sequence of operations, an unusual input or configuration, or two cooperating sites that each look fine alone. Do not touch code guarded by `cfg(cadence_verif)` (verification hooks) and do not rely on them.
3. Write a demonstration that FAILS with your change and PASSES on the original code: a small Rust test file placed at /tmp/wt-{pid}/cadence/tests/seeded_demo.rs (or cadence-macros/tests/seeded_demo.rs if the property is about the macros), using only the public API (and std, crossbeam-channel which is already a dependency). Verify both: run it with your change (must fail); then save your library diff with `git diff -- cadence/src cadence-macros/src > seeded.patch`, revert it with `git apply -R seeded.patch` (keep the demo), run the demo again (must pass), and re-apply with `git apply seeded.patch`. Do NOT use `git stash` (the stash is shared with other worktrees of the same repository).
4. Save the library change (only the library diff, without the demo) as /tmp/wt-{pid}/seeded.patch using `git diff -- cadence/src cadence-macros/src > seeded.patch`.
5. Leave the worktree with the change applied and the demo present.

Report back (plain text): the idea of the bug in 2-3 sentences, what exactly is needed for it to manifest, the files touched, the command to run the demo, and the outputs you observed (with change: fail; without: pass; existing suite: same results as the original). Keep the change minimal (a few lines)."""
pid = sys.argv[1]
open(f'/tmp/prompt-{pid}.txt', 'w').write(prompt(pid, sys.argv[2] if len(sys.argv) > 2 else ""))
