#!/bin/sh
# developer aid: every behaviour-preserving change under benign/ against every quick check (exclusive use of /repo)
cd /verif
bad=0
for d in benign/B*; do
  echo "=== $d"
  sh tools/benigntest.sh /verif/$d/patch.diff 2>&1 | grep -v "^C.. ok (divergence lines: 0)" ; 
done
git -C /repo status --short
