#!/bin/sh
# developer aid: run every quick check with several seeds on the unchanged tree; any non-zero exit is a problem of the machinery
cd /verif
for seed in "$@"; do
  for p in C01 C02 C03 C04 C05 C06 C07 C08 C09 C10 C11 C12 C13 C14 C15 C16 C17 C18 C19 C20; do
    out=$(VERIF_SEED=$seed ./check $p 2>&1); rc=$?
    if [ $rc -ne 0 ]; then echo "SEED $seed $p rc=$rc"; echo "$out" | grep -E "VIOLATION|rule=|TOOL-ERROR" | head -5; fi
  done
  echo "seed $seed done"
done
