"""Holder engine: C18.

C  the memory Orderings are read from a probe run of the real code under the shim and become the
   CONSTANTS of Holder.tla, so the model TLC explores carries the orderings written in the source.
E  exhaustive TLC of Holder.tla (view-based release/acquire semantics with stale loads) composed
   with HolderProp for several 3-thread programs; weakened orderings must be refuted.
A  TLC-simulated interleavings replayed on a fresh SingletonHolder per behaviour with the threads
   parked at the shim points; results compared with the model.
B  scheduled and free-running traces validated by TLC against HolderProp (vector-clock race check
   with the orderings logged in the trace + API-level rules).
"""
import json
import os

from lib import *

HDEPS = ["Holder.tla", "HolderProp.tla", "MC_Holder.tla"]
INVS = ["NoViolation", "OneWinner", "GetSound"]
PROGS_QUICK = ["ProgA", "ProgB", "ProgC"]


def consts(prog, o, stale=True, hist=False):
    return {"T": "<-MCT", "Prog": "<-" + prog, "OrdCasS": o["OrdCasS"], "OrdCasF": o["OrdCasF"],
            "OrdStore": o["OrdStore"], "OrdLoad": o["OrdLoad"], "Stale": stale, "Hist": hist}


def run(res, tier, seed, wd, replay=None):
    res.assumptions += [
        "the C++20/Rust release-acquire semantics as encoded in HolderProp (release sequences continue through RMWs only)",
        "recorded executions are sequentially consistent (x86): non-SC behaviours are covered in the model only, with the orderings extracted from the source",
    ]
    build_harness()
    # ---- C: orderings from the source
    pr, _ = cvh(["holder-probe"])
    real = {k: pr[k] for k in ("OrdCasS", "OrdCasF", "OrdStore", "OrdLoad")}
    res.notes["orderings_from_source"] = real
    res.notes["probe_shape"] = pr["shape"]
    log("[C] orderings extracted from the running code: %s (model applies: %s)" % (real, pr["model_applies"]))
    if replay:
        return do_replay(res, replay, wd)
    # ---- E: exhaustive with the extracted orderings (if the algorithm still has the modelled shape)
    progs = PROGS_QUICK if tier == "quick" else PROGS_QUICK + ["ProgD", "ProgE", "ProgF"]
    model_ok = pr["model_applies"] and all(real.values())
    if model_ok:
        def one(p):
            def go():
                cfg = os.path.join(wd, "mc-%s.cfg" % p)
                write_cfg(cfg, constants=consts(p, real), invariants=INVS)
                r, out = tlc("MC_Holder", cfg, wd, workers=4, timeout=1800, tag="mch" + p, args=["-coverage", "1", "-dumpTrace", "json", os.path.join(wd, "cex-%s.json" % p)])
                if r["violated"]:
                    try:
                        r["cex"] = json.load(open(os.path.join(wd, "cex-%s.json" % p)))
                    except Exception:
                        r["cex"] = None
                    rules = sorted(set(re.findall(r'<<"C18", "([a-z-]+)">>', out)))
                    r["rules"] = rules
                return r
            return tlc_cached("holder-%s-%s" % (p, json.dumps(real, sort_keys=True)), go, deps=HDEPS)
        rs = pmap(one, progs, par=3)
        for p, r in zip(progs, rs):
            if r.get("errors"):
                raise ToolError("Holder.tla failed: %s" % r["errors"])
            res.add_tlc(r)
            if r["violated"]:
                # the algorithm of the source with the orderings of the source admits a bad state
                cex = r.get("cex")
                res.flag("C18", "model-with-source-orderings:" + ",".join(r.get("rules") or r["violated"]),
                         {"program": p, "orderings": real, "violated": r["violated"]},
                         {"engine": "holder", "origin": {"how": "tlc-counterexample", "program": p, "orderings": real},
                          "counterexample": cex})
        if not any(r["violated"] for r in rs):
            acts = check_vacuity("Holder.tla", rs)
            res.notes["action_coverage"] = "every action of Holder.tla taken: " + ", ".join("%s=%d" % kv for kv in sorted(acts.items()))
        log("[E] Holder.tla with the source's orderings, %d programs, stale loads enabled: %d distinct states, violated=%s" % (
            len(progs), sum(r["distinct"] for r in rs), [r["violated"] for r in rs if r["violated"]]))
    else:
        res.divergences.append({"why": "the atomic operations observed do not have the shape Holder.tla models; only trace-level rules apply", "probe": pr})
    # the properties must be able to fail: weakened orderings are refuted
    base = {"OrdCasS": "AcqRel", "OrdCasF": "Relaxed", "OrdStore": "Release", "OrdLoad": "Acquire"}
    def weak(kv):
        k, v, expect = kv
        o = dict(base); o[k] = v
        def go():
            cfg = os.path.join(wd, "weak-%s.cfg" % k)
            write_cfg(cfg, constants=consts("ProgA", o), invariants=INVS)
            r, out = tlc("MC_Holder", cfg, wd, workers=2, timeout=900, tag="weak" + k)
            return r
        r = tlc_cached("holder-weak-%s-%s" % (k, v), go, deps=HDEPS)
        return (k, v, expect, bool(r["violated"]))
    ws = pmap(weak, [("OrdStore", "Relaxed", True), ("OrdLoad", "Relaxed", True), ("OrdCasS", "Relaxed", False)], par=3)
    for k, v, expect, got in ws:
        if expect != got:
            raise ToolError("weakened ordering %s=%s: expected refuted=%s got %s" % (k, v, expect, got))
    res.notes["weakened_orderings"] = "store->Relaxed refuted, load->Relaxed refuted, cas->Relaxed correctly accepted"
    # ---- A: scheduled replay
    traces = []
    ntr = 0
    if model_ok:
        num = 250 if tier == "quick" else 4000
        beh = os.path.join(wd, "hbeh.ndjson")
        open(beh, "w").close()
        def gen(p):
            cfg = os.path.join(wd, "gen-%s.cfg" % p)
            write_cfg(cfg, constants=consts(p, real, stale=False, hist=True), invariants=["Export"])
            r, out = tlc("MC_Holder", cfg, wd, workers=1, timeout=900, tag="hsim" + p,
                         args=["-simulate", "num=%d" % num, "-depth", "80", "-seed", str(seed + len(p))])
            if r["errors"]:
                raise ToolError("holder behaviour generation failed: %s" % r["errors"])
            return out
        n = sum(extract_replay(o, beh) for o in pmap(gen, progs, par=3))
        trA = os.path.join(wd, "trace-hreplay.ndjson")
        s, _ = cvh(["holder-replay", "--in", beh, "--out", trA, "--maxdiv", 4 if tier == "quick" else 30], timeout=1800)
        log("[A] %d TLC interleavings (%d steps) replayed on fresh SingletonHolders, threads parked at shim points: %d model divergences" % (
            s["behaviours"], s["steps"], s["model_divergences"]))
        res.divergences += s["first_divergences"]
        res.notes["replayed_behaviours"] = s["behaviours"]
        res.notes["model_divergence_count"] = s["model_divergences"]
        sm = s["sample"]
        res.sample({"kind": "TLC interleaving replayed", "steps": ["%s(t%d)" % (x["a"], x["t"]) for x in sm["steps"]], "results": sm["res"]})
        traces.append(trA)
        ntr += s["behaviours"]
    # ---- A': random cooperative schedules over the shim points (independent of the shape Holder.tla models)
    nsched = 400 if tier == "quick" else 8000
    trR = os.path.join(wd, "trace-hsched.ndjson")
    sr, outr = cvh(["holder-sched", "--seed", seed, "--runs", nsched, "--out", trR], timeout=3000, check=False)
    if sr is None:
        rc = LAST_CVH["rc"]
        if rc in (-6, -11, -7, -4, 134, 139, 135, 132):
            # killed by a signal while several threads use one holder: memory corruption (see the free-running driver below)
            res.flag("C18", "the-process-scheduling-threads-on-one-holder-was-killed-by-a-signal", {"rc": rc, "output_tail": outr[-400:]},
                     {"engine": "holder", "origin": {"how": "holder-sched", "args": ["--seed", seed, "--runs", nsched], "run": None}, "seed": seed})
            sr = {"runs": 0, "steps": 0, "stuck": 0}
        else:
            raise ToolError("harness holder-sched gave no summary (rc=%s):\n%s" % (rc, outr[-2000:]))
    else:
        traces.append(trR)
    log("[A'] %d random schedules over the shim points (%d scheduling steps, stuck=%d)" % (sr["runs"], sr["steps"], sr["stuck"]))
    res.notes["random_schedules"] = sr["runs"]
    ntr += sr["runs"]
    # ---- B: free-running
    runs = 300 if tier == "quick" else 5000
    trB = os.path.join(wd, "trace-hstress.ndjson")
    s2, out2 = cvh(["holder-stress", "--seed", seed, "--runs", runs, "--out", trB], timeout=1800, check=False)
    if s2 is None:
        rc = LAST_CVH["rc"]
        if rc in (-6, -11, -7, -4, 134, 139, 135, 132):
            # the process that hammers ONE holder from several threads was killed by SIGABRT / SIGSEGV / SIGBUS / SIGILL: memory
            # was corrupted. The only unsafe code of the workspace is the holder's cell; racing writes and reads of it (a freed or
            # half-written Arc) are exactly what C18 excludes. An abort cannot be caught in-process: it is data, not a tool error.
            res.flag("C18", "the-process-hammering-one-holder-was-killed-by-a-signal", {"rc": rc, "output_tail": out2[-400:]},
                     {"engine": "holder", "origin": {"how": "holder-stress", "args": ["--seed", seed, "--runs", runs], "run": None}, "seed": seed})
            s2 = {"runs": 0, "ops": 0}
        else:
            raise ToolError("harness holder-stress gave no summary (rc=%s):\n%s" % (rc, out2[-2000:]))
    else:
        traces.append(trB)
    log("[B] %d free-running runs, %d calls" % (s2["runs"], s2["ops"]))
    ntr += s2["runs"]
    allf = os.path.join(wd, "trace-all.ndjson")
    nev = concat(traces, allf)
    v = validate_trace("HolderTrace", allf, wd, timeout=1800)
    events = read_ndjson(allf) if v["bad"] else []
    for prop, rule, runline, line in v["bad"]:
        e = events[runline - 1]
        origin = {"how": "holder-replay", "behaviour": e.get("behaviour")} if "beh" in e else \
                 ({"how": "holder-sched", "args": ["--seed", seed, "--runs", nsched], "run": e.get("run")} if e.get("random_schedule") else
                  {"how": "holder-stress", "args": ["--seed", seed, "--runs", runs], "run": e.get("run")})
        res.flag(prop, rule, {"run_line": runline, "line": line, "event": events[line - 1]},
                 {"engine": "holder", "origin": origin, "trace_excerpt": run_segment(events, runline, upto=line)[-60:]})
    res.cov["traces_validated_against_impl"] = ntr
    res.cov["evaluations"] = nev
    res.cov["distinct_nontrivial"] = ntr
    res.cov["rule"] = "evaluations = trace events judged by HolderProp; one trace = one fresh holder with 2-4 threads; scheduled traces are distinct TLC interleavings"
    res.add_tlc({"distinct": v["states"], "generated": v["states"]})
    res.sample({"kind": "trace excerpt (real code, scheduled)", "events": read_ndjson(traces[0])[1:16]})
    if not v["bad"]:
        selftest(res, trR, wd)
    log("[verdict] %d events of %d traces validated by TLC against HolderProp: %d flagged rules" % (nev, ntr, len(v["bad"])))


def selftest(res, trace_file, wd):
    ev = read_ndjson(trace_file)
    def good(seg):
        # a run in which one thread stored COMPLETE and ANOTHER thread later read the cell
        st = [i for i, e in enumerate(seg) if e["ev"] == "store"]
        return bool(st) and any(e["ev"] == "cellr" and e["t"] != seg[st[0]]["t"] for e in seg[st[0]:]) \
            and any(e["ev"] == "ret" and e.get("r") == "some" for e in seg)
    run = first_run(ev, good)
    if run is None:
        raise ToolError("holder binding self-test: no suitable run")
    def relax_store(seg):
        for e in seg:
            if e["ev"] == "store":
                e["o"] = "Relaxed"
        return seg
    def relax_loads(seg):
        for e in seg:
            if e["ev"] == "load":
                e["o"] = "Relaxed"
        return seg
    def other_value(seg):
        for e in seg:
            if e["ev"] == "ret" and e.get("r") == "some":
                e["id"] = 999
                return seg
        return None
    def drop_cell_write(seg):
        return [e for e in seg if e["ev"] != "cellw"]
    selftest_corruptions(res, "HolderTrace", run,
                         [("store logged as Relaxed", relax_store), ("loads logged as Relaxed", relax_loads),
                          ("get returned an unknown value", other_value), ("cell write event removed", drop_cell_write)], wd, "holder")


def do_replay(res, path, wd):
    p = json.load(open(path))
    o = p["origin"]
    tr = os.path.join(wd, "replay.ndjson")
    if o["how"] == "tlc-counterexample":
        real = res.notes["orderings_from_source"]
        cfg = os.path.join(wd, "replay.cfg")
        write_cfg(cfg, constants=consts(o["program"], real), invariants=INVS)
        r, out = tlc("MC_Holder", cfg, wd, workers=4, timeout=1800, tag="rep")
        res.add_tlc(r)
        if r["violated"]:
            res.flag("C18", "model-with-source-orderings", {"program": o["program"], "orderings": real}, {"engine": "holder", "origin": o})
        res.cov["evaluations"] = r["generated"]; res.cov["distinct_nontrivial"] = max(2, r["distinct"])
        res.sample({"replayed": path})
        return
    if o["how"] == "holder-replay":
        b = os.path.join(wd, "b.ndjson")
        open(b, "w").write(json.dumps(o["behaviour"]) + "\n")
        cvh(["holder-replay", "--in", b, "--out", tr])
        seg = read_ndjson(tr)
    else:
        cvh([o["how"], "--out", tr] + [str(x) for x in o["args"]])
        ev = read_ndjson(tr)
        st = [i for i, e in enumerate(ev) if e["ev"] == "reset" and e.get("run") == o["run"]]
        seg = run_segment(ev, st[0] + 1)
    one = os.path.join(wd, "one.ndjson")
    with open(one, "w") as f:
        for e in seg:
            f.write(json.dumps(e) + "\n")
    v = validate_trace("HolderTrace", one, wd)
    for prop, rule, runline, line in v["bad"]:
        res.flag(prop, rule, {"line": line, "event": seg[line - 1]}, {"engine": "holder", "origin": o, "trace_excerpt": seg[-60:]})
    res.cov["traces_validated_against_impl"] = 1
    res.cov["evaluations"] = len(seg); res.cov["distinct_nontrivial"] = 2
    res.cov["states"] = res.cov["transitions"] = v["states"]
    res.sample({"replayed": path})
