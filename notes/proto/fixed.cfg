SPECIFICATION Spec
CONSTANTS Cap = 2
 MaxMetrics = 3
 MaxHandles = 2
 Policy = "fixed"
 Outcomes = {"ok","err","panic"}
INVARIANTS C08_Safe C10_Cap C15_Quiescent
PROPERTIES C08_Live C09_Live
CHECK_DEADLOCK FALSE
