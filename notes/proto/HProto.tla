---------------------------- MODULE HProto ----------------------------
(* SCRATCH PROTOTYPE used to size DESIGN.md -- not the framework spec.   *)
(* SingletonHolder under a view-based release/acquire model:            *)
(* one atomic location (mo = modification order), one non-atomic cell,  *)
(* vector clocks for happens-before, stale loads allowed.               *)
EXTENDS Naturals, Sequences, FiniteSets, TLC
CONSTANTS T, Prog, OrdCasS, OrdCasF, OrdStore, OrdLoad
UNSET == 0  LOADING == 1  COMPLETE == 2
IsAcq(o) == o \in {"Acquire","AcqRel","SeqCst"}
IsRel(o) == o \in {"Release","AcqRel","SeqCst"}
Zero == [u \in T |-> 0]
Join(a, b) == [u \in T |-> IF a[u] >= b[u] THEN a[u] ELSE b[u]]
VARIABLES mo, seen, vc, wr, rd, cell, pc, ip, res, race, winners
vars == <<mo, seen, vc, wr, rd, cell, pc, ip, res, race, winners>>
Init == /\ mo = << [val |-> UNSET, msg |-> Zero] >>
        /\ seen = [t \in T |-> 1] /\ vc = [t \in T |-> [u \in T |-> IF u = t THEN 1 ELSE 0]]
        /\ wr = [t |-> 0, c |-> 0] /\ rd = Zero /\ cell = 0
        /\ pc = [t \in T |-> "idle"] /\ ip = [t \in T |-> 1]
        /\ res = [t \in T |-> <<>>] /\ race = FALSE /\ winners = {}
Op(t) == Prog[t][ip[t]]
Start(t) == /\ pc[t] = "idle" /\ ip[t] <= Len(Prog[t])
            /\ pc' = [pc EXCEPT ![t] = IF Op(t) = "set" THEN "cas" ELSE "load"]
            /\ UNCHANGED <<mo, seen, vc, wr, rd, cell, ip, res, race, winners>>
Done(t, r) == /\ ip' = [ip EXCEPT ![t] = @ + 1] /\ res' = [res EXCEPT ![t] = Append(@, r)]
Cas(t) == /\ pc[t] = "cas"
          /\ \/ /\ mo[Len(mo)].val = UNSET          \* success: RMW reads the latest
                /\ LET acq == IF IsAcq(OrdCasS) THEN Join(vc[t], mo[Len(mo)].msg) ELSE vc[t]
                       me  == [acq EXCEPT ![t] = @ + 1]
                       msg == IF IsRel(OrdCasS) THEN Join(acq, mo[Len(mo)].msg) ELSE mo[Len(mo)].msg
                   IN /\ mo' = Append(mo, [val |-> LOADING, msg |-> msg])
                      /\ vc' = [vc EXCEPT ![t] = me]
                /\ seen' = [seen EXCEPT ![t] = Len(mo) + 1]
                /\ pc' = [pc EXCEPT ![t] = "write"] /\ winners' = winners \cup {t}
                /\ UNCHANGED <<wr, rd, cell, ip, res, race>>
             \/ \E i \in seen[t]..Len(mo) :          \* failure: a plain load of a value # UNSET
                /\ mo[i].val # UNSET
                /\ seen' = [seen EXCEPT ![t] = i]
                /\ vc' = [vc EXCEPT ![t] = IF IsAcq(OrdCasF) THEN Join(@, mo[i].msg) ELSE @]
                /\ pc' = [pc EXCEPT ![t] = "idle"] /\ Done(t, [k |-> "ignored", v |-> 0])
                /\ UNCHANGED <<mo, wr, rd, cell, race, winners>>
WriteCell(t) == /\ pc[t] = "write"
                /\ race' = (race \/ (wr.t # 0 /\ wr.t # t /\ wr.c > vc[t][wr.t])
                                 \/ (\E u \in T \ {t} : rd[u] > vc[t][u]))
                /\ wr' = [t |-> t, c |-> vc[t][t]] /\ cell' = t
                /\ pc' = [pc EXCEPT ![t] = "store"]
                /\ UNCHANGED <<mo, seen, vc, rd, ip, res, winners>>
Store(t) == /\ pc[t] = "store"
            /\ LET me == [vc[t] EXCEPT ![t] = @ + 1] IN
               /\ mo' = Append(mo, [val |-> COMPLETE, msg |-> IF IsRel(OrdStore) THEN vc[t] ELSE Zero])
               /\ vc' = [vc EXCEPT ![t] = me]
            /\ seen' = [seen EXCEPT ![t] = Len(mo) + 1]
            /\ pc' = [pc EXCEPT ![t] = "idle"] /\ Done(t, [k |-> "set", v |-> 0])
            /\ UNCHANGED <<wr, rd, cell, race, winners>>
Load(t) == /\ pc[t] = "load"
           /\ \E i \in seen[t]..Len(mo) :
              /\ seen' = [seen EXCEPT ![t] = i]
              /\ vc' = [vc EXCEPT ![t] = IF IsAcq(OrdLoad) THEN Join(@, mo[i].msg) ELSE @]
              /\ IF mo[i].val = COMPLETE
                 THEN IF Op(t) = "get" THEN pc' = [pc EXCEPT ![t] = "read"] /\ UNCHANGED <<ip, res>>
                                       ELSE pc' = [pc EXCEPT ![t] = "idle"] /\ Done(t, [k |-> "true", v |-> 0])
                 ELSE pc' = [pc EXCEPT ![t] = "idle"] /\ Done(t, [k |-> IF Op(t) = "get" THEN "none" ELSE "false", v |-> 0])
           /\ UNCHANGED <<mo, wr, rd, cell, race, winners>>
ReadCell(t) == /\ pc[t] = "read"
               /\ race' = (race \/ (wr.t # 0 /\ wr.t # t /\ wr.c > vc[t][wr.t]))
               /\ rd' = [rd EXCEPT ![t] = vc[t][t]]
               /\ pc' = [pc EXCEPT ![t] = "idle"] /\ Done(t, [k |-> "some", v |-> cell])
               /\ UNCHANGED <<mo, seen, vc, wr, cell, winners>>
Next == \E t \in T : Start(t) \/ Cas(t) \/ WriteCell(t) \/ Store(t) \/ Load(t) \/ ReadCell(t)
Spec == Init /\ [][Next]_vars
NoRace == ~race
OneWinner == Cardinality(winners) <= 1
GetSound == \A t \in T : \A k \in 1..Len(res[t]) :
              (res[t][k].k = "some") => (res[t][k].v \in winners)
=============================================================================
