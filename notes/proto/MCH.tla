---- MODULE MCH ----
EXTENDS HProto
MCProg == <<<<"set","get">>, <<"set","get">>, <<"get","is_set","get">>>>
====
