---------------------------- MODULE QProto ----------------------------
(* SCRATCH PROTOTYPE used to size DESIGN.md -- not the framework spec.   *)
EXTENDS Naturals, Sequences, FiniteSets, TLC, SequencesExt
CONSTANTS Cap,        \* queue capacity (Nat) or 99 = unbounded
          MaxMetrics, \* metrics ever emitted
          MaxHandles, \* handles ever created
          Policy,     \* "legacy" (every drop try_sends None, loss ignored) | "fixed"
          Outcomes    \* subset of {"ok","err","panic"}
NONE == 0
VARIABLES handles, nextH, nextM, chan, wk, cur, accepted, delivered,
          submitted, drained, panics, hlog, pendStop, inflight
vars == <<handles, nextH, nextM, chan, wk, cur, accepted, delivered,
          submitted, drained, panics, hlog, pendStop, inflight>>
Room == Cap = 99 \/ Len(chan) < Cap
Init == /\ handles = {1} /\ nextH = 2 /\ nextM = 1 /\ chan = <<>>
        /\ wk = "recv" /\ cur = NONE /\ accepted = <<>> /\ delivered = <<>>
        /\ submitted = 0 /\ drained = 0 /\ panics = 0 /\ hlog = <<>>
        /\ pendStop = FALSE /\ inflight = {}
(* producer: try_send then (separately) incr_submitted *)
EmitTry(h) == /\ h \in handles /\ nextM <= MaxMetrics /\ h \notin inflight
              /\ nextM' = nextM + 1
              /\ IF Room THEN /\ chan' = Append(chan, nextM)
                              /\ accepted' = Append(accepted, nextM)
                              /\ inflight' = inflight \cup {h}
                         ELSE UNCHANGED <<chan, accepted, inflight>>
              /\ UNCHANGED <<handles, nextH, wk, cur, delivered, submitted, drained, panics, hlog, pendStop>>
EmitCount(h) == /\ h \in inflight /\ inflight' = inflight \ {h}
                /\ submitted' = submitted + 1
                /\ UNCHANGED <<handles, nextH, nextM, chan, wk, cur, accepted, delivered, drained, panics, hlog, pendStop>>
Clone(h) == /\ h \in handles /\ nextH <= MaxHandles
            /\ handles' = handles \cup {nextH} /\ nextH' = nextH + 1
            /\ UNCHANGED <<nextM, chan, wk, cur, accepted, delivered, submitted, drained, panics, hlog, pendStop, inflight>>
DropH(h) == /\ h \in handles /\ h \notin inflight
            /\ handles' = handles \ {h}
            /\ LET stops == Policy = "legacy" \/ handles = {h} IN
               IF ~stops THEN UNCHANGED <<chan, pendStop>>
               ELSE IF Room THEN chan' = Append(chan, NONE) /\ UNCHANGED pendStop
               ELSE /\ UNCHANGED chan
                    /\ pendStop' = (IF Policy = "fixed" THEN TRUE ELSE pendStop)
            /\ UNCHANGED <<nextH, nextM, wk, cur, accepted, delivered, submitted, drained, panics, hlog, inflight>>
HelperSend == /\ pendStop /\ Room /\ chan' = Append(chan, NONE) /\ pendStop' = FALSE
              /\ UNCHANGED <<handles, nextH, nextM, wk, cur, accepted, delivered, submitted, drained, panics, hlog, inflight>>
Recv == /\ wk = "recv" /\ chan # <<>>
        /\ chan' = Tail(chan)
        /\ IF Head(chan) = NONE THEN wk' = "exited" /\ cur' = NONE
                                ELSE wk' = "got" /\ cur' = Head(chan)
        /\ UNCHANGED <<handles, nextH, nextM, accepted, delivered, submitted, drained, panics, hlog, pendStop, inflight>>
Count == /\ wk = "got" /\ drained' = drained + 1 /\ wk' = "task"
         /\ UNCHANGED <<handles, nextH, nextM, chan, cur, accepted, delivered, submitted, panics, hlog, pendStop, inflight>>
Task(o) == /\ wk = "task" /\ delivered' = Append(delivered, cur)
           /\ wk' = (IF o = "panic" THEN "unwinding" ELSE "recv")
           /\ hlog' = (IF o = "err" THEN Append(hlog, cur) ELSE hlog)
           /\ cur' = (IF o = "panic" THEN cur ELSE NONE)
           /\ UNCHANGED <<handles, nextH, nextM, chan, accepted, submitted, drained, panics, pendStop, inflight>>
Respawn == /\ wk = "unwinding" /\ panics' = panics + 1 /\ wk' = "recv" /\ cur' = NONE
           /\ UNCHANGED <<handles, nextH, nextM, chan, accepted, delivered, submitted, drained, hlog, pendStop, inflight>>
Worker == Recv \/ Count \/ (\E o \in Outcomes : Task(o)) \/ Respawn \/ HelperSend
Next == \/ \E h \in 1..MaxHandles : EmitTry(h) \/ EmitCount(h) \/ Clone(h) \/ DropH(h)
        \/ Worker
Spec == Init /\ [][Next]_vars /\ WF_vars(Worker) /\ \A h \in 1..MaxHandles : WF_vars(EmitCount(h))
(* ---- properties ---- *)
C08_Safe == IsPrefix(delivered, accepted)
C10_Cap == Cap = 99 \/ Len(chan) <= Cap
C15_Quiescent == (inflight = {} /\ wk \in {"recv","exited"}) =>
                   (submitted = Len(accepted) /\ drained = Len(delivered))
C08_Live == \A i \in 1..MaxMetrics : [](Len(accepted) >= i => <>(Len(delivered) >= i))
C09_Live == [](handles = {} => <>(wk = "exited" /\ delivered = accepted))
=============================================================================
