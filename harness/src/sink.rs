//! Socket / shared-sink engine (C12 C13 C14): the real UDP, Unix-datagram and spy sinks on real
//! loopback sockets, judged by the writer monitor (an unbuffered sink is the writer with capacity 0
//! and an empty terminator: every metric goes out alone and unmodified).
//!   sink-drive  sequential histories on udp / unix / budp / bunix sinks with real socket failures
//!               (EMSGSIZE for oversized UDP datagrams, EAGAIN on a full non-blocking Unix queue)
//!   sink-conc   several threads emitting and flushing through ONE shared client / sink; the trace is
//!               serialised in the order of the critical sections reported by the lock hooks
use crate::common::*;
use crate::queue::tid;
use cadence::prelude::*;
use cadence::Metric;
use cadence::{
    BufferedSpyMetricSink, BufferedUdpMetricSink, BufferedUnixMetricSink, MetricSink, QueuingMetricSink, StatsdClient,
    UdpMetricSink, UnixMetricSink,
};
use rand::rngs::StdRng;
use rand::{Rng, SeedableRng};
use serde_json::{json, Value};
use std::collections::VecDeque;
use std::net::UdpSocket;
use std::os::unix::net::UnixDatagram;
use std::panic::{catch_unwind, AssertUnwindSafe};
use std::sync::{Arc, Mutex};
use std::time::{Duration, Instant};

// ------------------------------------------------------------------ hook log
#[derive(Clone, Debug)]
enum Hk {
    Locked(u64),
    Unlocking(u64),
    Attempt(u64, usize),
    ECall(u64, String, String),
    ERet(u64, Result<usize, String>),
    // stack driver: client-level call / return, handle drop, release of the wrapped sink
    CCall(u64, String),
    /// a thread is about to call client.flush()
    FCall(u64),
    #[allow(dead_code)]
    CRet(u64, String, Result<usize, String>),
    DropBegin(u64),
    #[allow(dead_code)]
    DropEnd(u64),
    WDropped(u64),
}
static HOOKS: Mutex<Vec<Hk>> = Mutex::new(Vec::new());
fn hk(e: Hk) {
    HOOKS.lock().unwrap_or_else(|e| e.into_inner()).push(e);
}
fn install() {
    cadence::verif::install(Some(Arc::new(|site: &'static str, _obj: usize, a: u64, _b: u64| match site {
        "buf.locked" => hk(Hk::Locked(tid())),
        "buf.unlocking" => hk(Hk::Unlocking(tid())),
        "sock.write" | "sock.send" => hk(Hk::Attempt(tid(), a as usize)),
        _ => {}
    })));
}
fn take_hooks() -> Vec<Hk> {
    std::mem::take(&mut *HOOKS.lock().unwrap_or_else(|e| e.into_inner()))
}

// ------------------------------------------------------------------ wires
enum Wire {
    Udp(UdpSocket, UdpSocket),
    Unix(UnixDatagram, UnixDatagram, String),
    Spy(crossbeam_channel::Receiver<Vec<u8>>),
}
impl Wire {
    /// everything that has arrived so far, in order (never blocks longer than `grace`)
    fn drain(&self, want_at_least: usize, grace: Duration) -> Vec<Vec<u8>> {
        let mut out = vec![];
        let t0 = Instant::now();
        let mut buf = vec![0u8; 70_000];
        loop {
            let got: Option<Vec<u8>> = match self {
                Wire::Udp(r, _) => r.recv(&mut buf).ok().map(|n| buf[..n].to_vec()),
                Wire::Unix(r, _, _) => r.recv(&mut buf).ok().map(|n| buf[..n].to_vec()),
                Wire::Spy(rx) => rx.try_recv().ok(),
            };
            match got {
                Some(d) => out.push(d),
                None => {
                    if out.len() >= want_at_least || t0.elapsed() > grace {
                        return out;
                    }
                    std::thread::sleep(Duration::from_micros(200));
                }
            }
        }
    }
    /// datagrams that reached the decoy socket (must be none)
    fn decoy(&self) -> usize {
        let mut buf = [0u8; 2048];
        let mut n = 0;
        loop {
            let ok = match self {
                Wire::Udp(_, d) => d.recv(&mut buf).is_ok(),
                Wire::Unix(_, d, _) => d.recv(&mut buf).is_ok(),
                Wire::Spy(_) => false,
            };
            if !ok {
                return n;
            }
            n += 1;
        }
    }
}

fn sockdir() -> String {
    let d = format!("{}/../work/sock-{}", env!("CARGO_MANIFEST_DIR"), std::process::id());
    std::fs::create_dir_all(&d).unwrap();
    d
}

/// The sinks are given TWO addresses: the receiver first, the decoy second. "The address given at
/// construction" is the first one the argument resolves to (get_addr), so the decoy must stay empty.
fn udp_wire() -> (Wire, Vec<std::net::SocketAddr>, UdpSocket) {
    let r = UdpSocket::bind("127.0.0.1:0").unwrap();
    r.set_nonblocking(true).unwrap();
    let d = UdpSocket::bind("127.0.0.1:0").unwrap();
    d.set_nonblocking(true).unwrap();
    let addr = vec![r.local_addr().unwrap(), d.local_addr().unwrap()];
    let s = UdpSocket::bind("127.0.0.1:0").unwrap();
    (Wire::Udp(r, d), addr, s)
}
fn unix_wire(tag: &str) -> (Wire, String, UnixDatagram) {
    let dir = sockdir();
    let p = format!("{}/r-{}.sock", dir, tag);
    let dp = format!("{}/d-{}.sock", dir, tag);
    let _ = std::fs::remove_file(&p);
    let _ = std::fs::remove_file(&dp);
    let r = UnixDatagram::bind(&p).unwrap();
    r.set_nonblocking(true).unwrap();
    let d = UnixDatagram::bind(&dp).unwrap();
    d.set_nonblocking(true).unwrap();
    let s = UnixDatagram::unbound().unwrap();
    (Wire::Unix(r, d, p.clone()), p, s)
}

/// Self-probe of the instrumentation: one known-good emit (+ flush) per sink family must report the hook points the drivers
/// rely on (write attempts; for buffered sinks also the critical section). A family whose points are not reported - a change to
/// the code moved or dropped them - cannot be judged from outside: its runs are skipped and named in the summary (reported as a
/// divergence of the tooling), never turned into a verdict.
fn probe_hooks() -> Vec<&'static str> {
    let mut missing = vec![];
    let mut check = |family: &'static str, buffered: bool, f: &mut dyn FnMut()| {
        take_hooks();
        let _ = catch_unwind(AssertUnwindSafe(|| f()));
        let h = take_hooks();
        let att = h.iter().filter(|x| matches!(x, Hk::Attempt(..))).count();
        let lk = h.iter().filter(|x| matches!(x, Hk::Locked(_))).count();
        let ul = h.iter().filter(|x| matches!(x, Hk::Unlocking(_))).count();
        if att < 1 || (buffered && (lk < 2 || ul < 2)) {
            missing.push(family);
        }
    };
    check("udp", false, &mut || {
        let (_w, addr, s) = udp_wire();
        let _ = UdpMetricSink::from(&addr[..], s).unwrap().emit("probe:1|c");
    });
    check("budp", true, &mut || {
        let (_w, addr, s) = udp_wire();
        let k = BufferedUdpMetricSink::with_capacity(&addr[..], s, 64).unwrap();
        let _ = k.emit("probe:1|c");
        let _ = k.flush();
    });
    check("unix", false, &mut || {
        let (_w, p, s) = unix_wire("probe");
        let _ = UnixMetricSink::from(&p, s).emit("probe:1|c");
    });
    check("bunix", true, &mut || {
        let (_w, p, s) = unix_wire("probeb");
        let k = BufferedUnixMetricSink::with_capacity(&p, s, 64);
        let _ = k.emit("probe:1|c");
        let _ = k.flush();
    });
    check("bspy", true, &mut || {
        let (_rx, k) = BufferedSpyMetricSink::with_capacity(None, Some(64));
        let _ = k.emit("probe:1|c");
        let _ = k.flush();
    });
    missing
}
/// the sink family of a driver kind ("conc-budp", "budp-nb", "q-budp", "bulk-udp", "bunix-default" ...)
fn family(kind: &str) -> &str {
    let k = kind.trim_start_matches("conc-").trim_start_matches("bulk-").trim_start_matches("q-").trim_start_matches("stack-");
    k.trim_end_matches("-nb").trim_end_matches("-default")
}

fn metric(seq: u64, len: usize) -> String {
    let mut s = format!("s{}.é:{}|g|#k:{}", seq, seq % 89, seq % 5);
    if s.len() > len {
        // too short for the template: ASCII filler of exactly `len` bytes
        return "abcdefghijklmnopqrstuvwxyz".chars().cycle().skip((seq % 26) as usize).take(len).collect();
    }
    while s.len() < len {
        s.push((b'a' + ((seq as usize + s.len()) % 26) as u8) as char);
    }
    s
}

fn stats_ev(s: &cadence::SinkStats) -> Value {
    let c = |x: u64| x.min(2_000_000_000);
    json!({"ev":"stats","bs":c(s.bytes_sent),"ps":c(s.packets_sent),"bd":c(s.bytes_dropped),"pd":c(s.packets_dropped)})
}

// ------------------------------------------------------------------ sequential driver
struct Pending {
    ix: usize,
    len: usize,
}

/// resolve outstanding attempts against what was received since the last drain (FIFO): an attempt
/// whose datagram did not arrive was refused by the socket
fn resolve(evs: &mut [Value], outstanding: &mut VecDeque<Pending>, got: Vec<Vec<u8>>, errkind: &str) -> Vec<Vec<u8>> {
    let mut q: VecDeque<Vec<u8>> = got.into();
    while let Some(p) = outstanding.pop_front() {
        match q.front() {
            Some(d) if d.len() == p.len => {
                let d = q.pop_front().unwrap();
                evs[p.ix] = json!({"ev":"att","hex":hex(&d),"len":d.len(),"ok":true,"kind":""});
            }
            _ => evs[p.ix] = json!({"ev":"att","hex":"?","len":p.len,"ok":false,"kind":errkind}),
        }
    }
    q.into()
}

pub fn drive(a: &Args) {
    let seed = a.num("seed", 1);
    let runs = a.num("runs", 12);
    let ops = a.num("ops", 120);
    let t = Trace::create(&a.req("out"));
    install();
    let mut rng = StdRng::seed_from_u64(seed ^ 0x50c2_0006);
    let mut calls = 0u64;
    let mut sample = json!(null);
    let kinds = ["udp", "unix", "budp", "bunix", "bunix-nb", "unix-nb", "budp-default", "q-budp", "bunix-default", "udp-nb", "budp-nb", "spy"];
    let uninstrumented = probe_hooks();
    for run in 0..runs {
        let kind = kinds[(run as usize) % kinds.len()];
        if uninstrumented.contains(&family(kind)) {
            continue;
        }
        let caps = [0usize, 1, 5, 16, 40, 64, 100, 512, 1432, 70_000];
        let cap = caps[rng.random_range(0..caps.len())];
        // scenario classes that must not depend on the seed: in the first pass over the kinds a non-blocking buffered sink
        // gets a small buffer (many datagrams: the undrained receiver queue fills up and the socket refuses), in the
        // second pass a large one
        let cycle = run as usize / kinds.len();
        let cap = if kind.ends_with("-nb") && kind.starts_with('b') && cycle % 2 == 0 { [1usize, 5, 16][cycle / 2 % 3] } else { cap };
        // behind a queuing wrapper the buffered sink gets a capacity that really buffers (what flush / stats delegation does to
        // buffered lines is the point of these runs)
        let cap = if kind.starts_with("q-") { [64usize, 512, 40][cycle % 3] } else { cap };
        let buffered = kind.starts_with('b') || kind.starts_with("q-");
        let nonblock = kind.ends_with("-nb");
        let mut weak: Option<std::sync::Weak<BufferedUdpMetricSink>> = None;
        let (wire, sink, mcap): (Wire, Box<dyn MetricSink + Send + Sync>, usize) = match kind {
            "spy" => {
                // the unbuffered spy sink: one message per emit, a bounded channel refuses when it is full
                let (rx, s) = cadence::SpyMetricSink::with_capacity(3);
                (Wire::Spy(rx), Box::new(s), 0)
            }
            "udp" | "udp-nb" => {
                let (w, addr, s) = udp_wire();
                if nonblock {
                    s.set_nonblocking(true).unwrap();
                }
                (w, Box::new(UdpMetricSink::from(&addr[..], s).unwrap()), 0)
            }
            "budp" | "budp-nb" => {
                let (w, addr, s) = udp_wire();
                if nonblock {
                    s.set_nonblocking(true).unwrap();
                }
                (w, Box::new(BufferedUdpMetricSink::with_capacity(&addr[..], s, cap).unwrap()), cap)
            }
            "budp-default" => {
                let (w, addr, s) = udp_wire();
                (w, Box::new(BufferedUdpMetricSink::from(&addr[..], s).unwrap()), 512)
            }
            "q-budp" => {
                // flush and stats are read THROUGH client -> queuing wrapper -> sink (C06, C14 delegations);
                // emits go to the inner sink directly so that each call is synchronous
                let (w, addr, s) = udp_wire();
                let inner: Arc<BufferedUdpMetricSink> = Arc::new(BufferedUdpMetricSink::with_capacity(&addr[..], s, cap).unwrap());
                weak = Some(Arc::downgrade(&inner));
                let q = wrap_queuing(ArcSink(inner.clone()), run / kinds.len() as u64);
                let client = StatsdClient::from_sink("", ViaQueue(q.clone()));
                (w, Box::new(Delegating { inner, client, q }), cap)
            }
            "bunix-default" => {
                let (w, p, s) = unix_wire(&format!("{}", run));
                (w, Box::new(BufferedUnixMetricSink::from(&p, s)), 512)
            }
            "unix" | "unix-nb" => {
                let (w, p, s) = unix_wire(&format!("{}", run));
                if nonblock {
                    s.set_nonblocking(true).unwrap();
                }
                (w, Box::new(UnixMetricSink::from(&p, s)), 0)
            }
            _ => {
                let (w, p, s) = unix_wire(&format!("{}", run));
                if nonblock {
                    s.set_nonblocking(true).unwrap();
                }
                let c = cap.min(60_000);
                (w, Box::new(BufferedUnixMetricSink::with_capacity(&p, s, c)), c)
            }
        };
        let term = if buffered { "0a" } else { "" };
        let mut evs: Vec<Value> = vec![json!({"ev":"reset","cap":mcap,"tlen":term.len() / 2,"term":term,"kind":kind,"run":run})];
        let mut outstanding: VecDeque<Pending> = VecDeque::new();
        let mut sink = Some(sink);
        let mut seq = 0u64;
        let errkind_base = if kind.contains("udp") { "Uncategorized" } else if kind == "spy" { "Other" } else { "WouldBlock" };
        let mut errkind = errkind_base;
        // "the server vanished" window (blocking buffered Unix sinks, every run, never left to the seed): something small is
        // buffered, the path is renamed away, flush fails (ENOENT) and keeps the data, flush is retried at once and fails again,
        // the path comes back, flush succeeds and the datagram arrives
        let mut gone_phase: u8 = 0;
        let gone_at: u64 = if (kind == "bunix" || kind == "bunix-default") && mcap >= 4 { 3 } else { u64::MAX };
        let mut stray = 0usize;
        let mut missed = false;
        take_hooks();
        let mut wire = wire;
        let mut old_receivers: Vec<UnixDatagram> = vec![];
        let mut last_failed = false;
        let mut last_was_flush = false;
        let mut retried_flush = false;
        // the server behind a Unix path is replaced in two of every three passes over the kinds (never left to the seed)
        let rebind_at = if kind.contains("unix") && cycle % 3 != 2 { rng.random_range(10..(ops * 2 / 3).max(12)) } else { u64::MAX };
        for opi in 0..ops {
            if opi == rebind_at {
                // the server behind the path is replaced (restart / hand-over): the sink was given a PATH and
                // must keep sending to whatever socket is bound there; the old socket stays open as a decoy
                let got = wire.drain(0, Duration::from_millis(5));
                stray += resolve(&mut evs, &mut outstanding, got, errkind).len();
                if let Wire::Unix(r, d, p) = wire {
                    let _ = std::fs::remove_file(&p);
                    let nr = UnixDatagram::bind(&p).unwrap();
                    nr.set_nonblocking(true).unwrap();
                    old_receivers.push(r);
                    wire = Wire::Unix(nr, d, p);
                    evs.push(json!({"ev":"note","rebind":true}));
                } else {
                    unreachable!();
                }
            }
            // a caller whose last call failed often simply flushes (again) next
            // (the first failed FLUSH of a run is always retried at once, with no emit in between: never left to the seed)
            let retry_now = buffered && last_failed && last_was_flush && !retried_flush;
            if retry_now {
                retried_flush = true;
            }
            if opi == gone_at {
                gone_phase = 1;
            }
            let forced: Option<Option<usize>> = match gone_phase {
                1 => Some(Some(mcap.saturating_sub(2).min(6))),
                2 => {
                    if let Wire::Unix(_, _, p) = &wire {
                        let _ = std::fs::rename(p, format!("{}.gone", p));
                    }
                    errkind = "NotFound";
                    Some(None)
                }
                3 => Some(None),
                4 => {
                    if let Wire::Unix(_, _, p) = &wire {
                        let _ = std::fs::rename(format!("{}.gone", p), p);
                    }
                    errkind = errkind_base;
                    Some(None)
                }
                _ => None,
            };
            if gone_phase > 0 {
                gone_phase = if gone_phase >= 4 { 0 } else { gone_phase + 1 };
            }
            let flush = forced == Some(None) || (forced.is_none() && (retry_now || (buffered && (rng.random_range(0..10) == 0 || (last_failed && rng.random_bool(0.5))))));
            let text = if flush {
                String::new()
            } else if let Some(Some(l)) = forced {
                seq += 1;
                metric(seq, l)
            } else {
                seq += 1;
                let len = match rng.random_range(0..12) {
                    0 => 0,
                    1 => mcap.saturating_sub(1),
                    2 => mcap,
                    3 => mcap + 1,
                    4 if kind.contains("udp") && !kind.starts_with("q-") => 65_508 + rng.random_range(0..10), // EMSGSIZE
                    5 if kind.contains("udp") => 65_507 - rng.random_range(0..3),
                    _ => rng.random_range(0..(mcap / 3 + 40)),
                };
                metric(seq, len)
            };
            calls += 1;
            evs.push(json!({"ev":"call","op":if flush {"flush"} else {"emit"},"hex":hex(text.as_bytes()),"len":text.len()}));
            let s = sink.as_ref().unwrap();
            let r = catch_unwind(AssertUnwindSafe(|| if flush { s.flush().map(|_| 0) } else { s.emit(&text) }));
            for h in take_hooks() {
                if let Hk::Attempt(_, len) = h {
                    outstanding.push_back(Pending { ix: evs.len(), len });
                    evs.push(json!(null));
                }
            }
            if kind == "spy" {
                // no attempt hook in the unbuffered spy sink: an emit is one attempt of exactly the metric
                outstanding.push_back(Pending { ix: evs.len(), len: text.len() });
                evs.push(json!(null));
            }
            // a non-blocking Unix receiver is left undrained most of the time so that its queue fills up
            // (in every other pass over the kinds not at all during the first half of the run: the queue certainly fills)
            let drain_now = !((nonblock && kind.contains("unix")) || kind == "spy") || (rng.random_bool(0.15) && !(cycle % 2 == 0 && opi < ops / 2));
            // sockets that used to be at the path are emptied at once (a blocking sender must never wait on them)
            {
                let mut b = [0u8; 2048];
                for o in &old_receivers {
                    while o.recv(&mut b).is_ok() {
                        stray += 1;
                    }
                }
            }
            if drain_now {
                let want = outstanding.len().min(if matches!(r, Ok(Ok(_))) { 1 } else { 0 });
                // generous wait for a datagram that must arrive; once one was missed in this run the sink is
                // broken anyway and the following waits are kept short
                let grace = if want == 0 { 0 } else if missed { 20 } else { 2000 };
                let got = wire.drain(want, Duration::from_millis(grace));
                if got.len() < want {
                    missed = true;
                }
                stray += resolve(&mut evs, &mut outstanding, got, errkind).len();
            }
            last_failed = matches!(r, Ok(Err(_)));
            last_was_flush = flush;
            match r {
                Ok(Ok(n)) => evs.push(json!({"ev":"ret","ok":true,"n":n,"kind":""})),
                Ok(Err(e)) => evs.push(json!({"ev":"ret","ok":false,"n":0,"kind":io_kind(&e)})),
                Err(_) => {
                    evs.push(json!({"ev":"panic","msg":last_panic()}));
                    break;
                }
            }
            if drain_now && kind != "spy" {
                let st = stats_ev(&sink.as_ref().unwrap().stats());
                // reading the statistics must not touch the socket: a write attempt made by stats() itself (for example a
                // wrapper that flushes the wrapped sink first) is recorded where it happened - outside emit / flush / drop
                let extra: Vec<usize> = take_hooks().into_iter().filter_map(|h| if let Hk::Attempt(_, len) = h { Some(len) } else { None }).collect();
                if !extra.is_empty() {
                    for len in &extra {
                        outstanding.push_back(Pending { ix: evs.len(), len: *len });
                        evs.push(json!(null));
                    }
                    let got = wire.drain(extra.len(), Duration::from_millis(500));
                    stray += resolve(&mut evs, &mut outstanding, got, errkind).len();
                }
                evs.push(st);
            }
        }
        let got = wire.drain(0, Duration::from_millis(20));
        stray += resolve(&mut evs, &mut outstanding, got, errkind).len();
        if kind != "spy" {
            evs.push(stats_ev(&sink.as_ref().unwrap().stats()));
        }
        evs.push(json!({"ev":"call","op":"drop","hex":"","len":0}));
        let r = catch_unwind(AssertUnwindSafe(|| drop(sink.take())));
        if let Some(w) = &weak {
            // behind a queuing wrapper the sink is released by the worker thread once it has stopped
            static EXPIRED_W: std::sync::atomic::AtomicU64 = std::sync::atomic::AtomicU64::new(0);
            let limit = if EXPIRED_W.load(std::sync::atomic::Ordering::Relaxed) >= 2 { Duration::from_secs(1) } else { Duration::from_secs(10) };
            let t0 = Instant::now();
            while w.upgrade().is_some() && t0.elapsed() < limit {
                std::thread::sleep(Duration::from_micros(200));
            }
            if w.upgrade().is_some() {
                EXPIRED_W.fetch_add(1, std::sync::atomic::Ordering::Relaxed);
            }
        }
        for h in take_hooks() {
            if let Hk::Attempt(_, len) = h {
                outstanding.push_back(Pending { ix: evs.len(), len });
                evs.push(json!(null));
            }
        }
        let got = wire.drain(outstanding.len(), Duration::from_millis(500));
        stray += resolve(&mut evs, &mut outstanding, got, errkind).len();
        evs.push(if r.is_ok() { json!({"ev":"ret","ok":true,"n":0,"kind":""}) } else { json!({"ev":"panic","msg":last_panic()}) });
        let mut decoy = wire.decoy();
        let mut buf = [0u8; 2048];
        for o in &old_receivers {
            while o.recv(&mut buf).is_ok() {
                decoy += 1; // sent to the socket that USED to be at the path
            }
        }
        if stray > 0 || decoy > 0 {
            // datagrams nobody attempted, or delivered to the wrong address
            evs.push(json!({"ev":"att","hex":"ff","len":1,"ok":true,"kind":"","stray":stray,"decoy":decoy}));
        }
        for e in evs {
            if !e.is_null() {
                t.ev(e);
            }
        }
        if let Wire::Unix(_, _, p) = &wire {
            let _ = std::fs::remove_file(p);
        }
        if run == 0 {
            sample = json!({"kind":kind,"cap":mcap,"ops":ops});
        }
    }
    cadence::verif::install(None);
    let _ = std::fs::remove_dir_all(sockdir());
    t.finish();
    summary(json!({"engine":"sink-drive","seed":seed,"runs":runs,"calls":calls,"events":t.count(),"sample":sample,"uninstrumented":uninstrumented}));
}

/// shares one sink between the harness and a client / queuing wrapper
pub struct ArcSink<S: MetricSink + ?Sized>(pub Arc<S>);
impl<S: MetricSink + ?Sized> MetricSink for ArcSink<S> {
    fn emit(&self, m: &str) -> std::io::Result<usize> {
        self.0.emit(m)
    }
    fn flush(&self) -> std::io::Result<()> {
        self.0.flush()
    }
    fn stats(&self) -> cadence::SinkStats {
        self.0.stats()
    }
}
/// client -> QueuingMetricSink: keeps the queuing sink reachable for stats()
struct ViaQueue(QueuingMetricSink);
impl MetricSink for ViaQueue {
    fn emit(&self, m: &str) -> std::io::Result<usize> {
        self.0.emit(m)
    }
    fn flush(&self) -> std::io::Result<()> {
        self.0.flush()
    }
    fn stats(&self) -> cadence::SinkStats {
        self.0.stats()
    }
}
/// emits go to the inner sink; flush goes client.flush() -> queuing.flush() -> sink.flush();
/// stats are read through a second queuing wrapper around the same sink
struct Delegating {
    inner: Arc<BufferedUdpMetricSink>,
    client: StatsdClient,
    /// a clone of the queuing wrapper the client flushes through: statistics are read through it
    q: QueuingMetricSink,
}
/// the queuing wrapper is obtained in each of the ways the API offers, in turn
fn wrap_queuing<S: MetricSink + Sync + Send + std::panic::RefUnwindSafe + 'static>(sink: S, turn: u64) -> QueuingMetricSink {
    match turn % 5 {
        0 => QueuingMetricSink::builder().with_error_handler(|_e| {}).build(sink),
        1 => cadence::QueuingMetricSinkBuilder::new().with_capacity(64).with_error_handler(|_e| {}).build(sink),
        2 => QueuingMetricSink::from(sink),
        3 => QueuingMetricSink::with_capacity(sink, 64),
        _ => QueuingMetricSink::builder().with_capacity(1).build(sink),
    }
}
impl MetricSink for Delegating {
    fn emit(&self, m: &str) -> std::io::Result<usize> {
        self.inner.emit(m)
    }
    fn flush(&self) -> std::io::Result<()> {
        // StatsdClient::flush wraps the sink's io::Error in a MetricError: hand the sink's own error back
        self.client.flush().map_err(|e| {
            let kind = std::error::Error::source(&e)
                .and_then(|s| s.downcast_ref::<std::io::Error>())
                .map(|i| i.kind())
                .unwrap_or(std::io::ErrorKind::Other);
            std::io::Error::new(kind, e.to_string())
        })
    }
    fn stats(&self) -> cadence::SinkStats {
        self.q.stats()
    }
}

// ------------------------------------------------------------------ concurrent driver
type DynSink = dyn MetricSink + Send + Sync + std::panic::RefUnwindSafe;

pub fn conc(a: &Args) {
    let seed = a.num("seed", 1);
    let runs = a.num("runs", 10);
    let t = Trace::create(&a.req("out"));
    install();
    let mut rng = StdRng::seed_from_u64(seed ^ 0xc0c0_0007);
    let mut calls = 0u64;
    let mut sample = json!(null);
    let kinds = ["bspy", "budp", "bunix", "udp", "bspy", "unix", "budp", "bulk-udp", "bulk-unix"];
    let uninstrumented = probe_hooks();
    for run in 0..runs {
        let kind = kinds[(run as usize) % kinds.len()];
        if uninstrumented.contains(&family(kind)) {
            continue;
        }
        if kind.starts_with("bulk-") {
            // C14 under heavy contention: 8 threads hammer ONE unbuffered sink; only the tallies are recorded
            // (each thread counts its own Ok / Err results and bytes), then stats() is read at quiescence
            let (wire, sink): (Wire, Arc<DynSink>) = if kind == "bulk-udp" {
                let (w, addr, s) = udp_wire();
                (w, Arc::new(UdpMetricSink::from(&addr[..], s).unwrap()))
            } else {
                // nothing is bound at the path: every send is refused
                let (w, p, s) = unix_wire(&format!("b{}", run));
                let _ = std::fs::remove_file(&p);
                (w, Arc::new(UnixMetricSink::from(&p, s)))
            };
            t.ev(json!({"ev":"reset","cap":0,"tlen":0,"term":"","kind":kind,"run":run}));
            let nthreads = 8u64;
            let per = 15_000u64;
            let mut js = vec![];
            for ti in 0..nthreads {
                let s = sink.clone();
                js.push(std::thread::spawn(move || {
                    // really parallel (fresh threads are often placed on one CPU and then take turns)
                    crate::queue::pin_to(1 + ti);
                    let (mut okn, mut okb, mut ern, mut erb) = (0u64, 0u64, 0u64, 0u64);
                    for i in 0..per {
                        let m = if i % 3 == 0 { "bulk.a:1|c" } else { "bulk.longer.metric.name:123456|g|#t:x" };
                        let _ = ti;
                        match s.emit(m) {
                            Ok(n) => { okn += 1; okb += n as u64; }
                            Err(_) => { ern += 1; erb += m.len() as u64; }
                        }
                    }
                    (okn, okb, ern, erb)
                }));
            }
            let mut tot = (0u64, 0u64, 0u64, 0u64);
            for j in js {
                if let Ok(x) = j.join() {
                    tot = (tot.0 + x.0, tot.1 + x.1, tot.2 + x.2, tot.3 + x.3);
                }
            }
            calls += nthreads * per;
            t.ev(json!({"ev":"bulk","okn":tot.0,"okb":tot.1,"ern":tot.2,"erb":tot.3,"threads":nthreads,"per":per}));
            t.ev(stats_ev(&sink.stats()));
            drop(sink);
            let _ = wire.drain(0, Duration::from_millis(1));
            if let Wire::Unix(_, _, p) = &wire {
                let _ = std::fs::remove_file(p);
            }
            continue;
        }
        let cap = [1usize, 8, 24, 64, 200, 512][rng.random_range(0..6)];
        let nthreads = rng.random_range(2..=4u64);
        // every third run is flush-heavy (emit, flush, emit, flush ... from every thread): flushes that race with emits
        let flush_odds: u32 = if run % 3 == 1 { 2 } else { 9 };
        let per = if flush_odds == 2 { rng.random_range(60..=160u64) } else { rng.random_range(5..=40u64) };
        let buffered = kind.starts_with('b');
        let mcap = if buffered { cap } else { 0 };
        let term = if buffered { "0a" } else { "" };
        let (wire, sink): (Wire, Arc<DynSink>) = match kind {
            "bspy" => {
                let (rx, s) = BufferedSpyMetricSink::with_capacity(None, Some(cap));
                (Wire::Spy(rx), Arc::new(s))
            }
            "budp" => {
                let (w, addr, s) = udp_wire();
                (w, Arc::new(BufferedUdpMetricSink::with_capacity(&addr[..], s, cap).unwrap()))
            }
            "bunix" => {
                let (w, p, s) = unix_wire(&format!("c{}", run));
                (w, Arc::new(BufferedUnixMetricSink::with_capacity(&p, s, cap)))
            }
            "udp" => {
                let (w, addr, s) = udp_wire();
                (w, Arc::new(UdpMetricSink::from(&addr[..], s).unwrap()))
            }
            _ => {
                let (w, p, s) = unix_wire(&format!("c{}", run));
                (w, Arc::new(UnixMetricSink::from(&p, s)))
            }
        };
        // all threads share ONE client over the sink
        let client = Arc::new(StatsdClient::from_sink("", ArcSink(sink.clone())));
        t.ev(json!({"ev":"reset","cap":mcap,"tlen":term.len() / 2,"term":term,"kind":format!("conc-{}", kind),"run":run,"threads":nthreads}));
        take_hooks();
        // a drainer keeps the socket queues short (a blocking Unix sender would otherwise wait for room)
        let wire = Arc::new(wire);
        let received: Arc<Mutex<Vec<Vec<u8>>>> = Arc::new(Mutex::new(vec![]));
        let stop = Arc::new(std::sync::atomic::AtomicBool::new(false));
        let drainer = {
            let (w, rcv, st) = (wire.clone(), received.clone(), stop.clone());
            std::thread::spawn(move || loop {
                let done = st.load(std::sync::atomic::Ordering::SeqCst);
                let got = w.drain(0, Duration::from_millis(0));
                let empty = got.is_empty();
                rcv.lock().unwrap().extend(got);
                if done && empty {
                    return;
                }
                if empty {
                    std::thread::sleep(Duration::from_micros(100));
                }
            })
        };
        let mut joins = vec![];
        for ti in 0..nthreads {
            let c = client.clone();
            let mut prng = StdRng::seed_from_u64(seed * 7_000_003 + run * 31 + ti);
            joins.push(std::thread::spawn(move || {
                let me = tid();
                // really parallel: freshly spawned threads are often placed on one CPU and then take turns
                crate::queue::pin_to(1 + ti);
                for i in 0..per {
                    if buffered && prng.random_range(0..flush_odds) == 0 {
                        hk(Hk::ECall(me, "flush".into(), String::new()));
                        let r = catch_unwind(AssertUnwindSafe(|| c.flush()));
                        hk(Hk::ERet(me, match r { Ok(Ok(())) => Ok(0), Ok(Err(e)) => Err(format!("{:?}", e.kind())), Err(_) => Err("PANIC".into()) }));
                    } else {
                        let len = prng.random_range(0..(cap + 6)).max(8).min(300);
                        let key = metric(me * 1000 + i, len);
                        // a gauge with a u64 value: the line is "<key>:<i>|g"
                        hk(Hk::ECall(me, "emit".into(), format!("{}:{}|g", key, i)));
                        let r = catch_unwind(AssertUnwindSafe(|| c.gauge(&key, i)));
                        hk(Hk::ERet(me, match r { Ok(Ok(m)) => Ok(m.as_metric_str().len()), Ok(Err(e)) => Err(format!("{:?}", e.kind())), Err(_) => Err("PANIC".into()) }));
                    }
                    if prng.random_range(0..3) == 0 {
                        std::thread::yield_now();
                    }
                }
            }));
        }
        for j in joins {
            let _ = j.join();
        }
        calls += nthreads * per;
        let me = tid();
        // everything the harness itself calls runs under catch_unwind: a panic of the code under test (for
        // example a poisoned sink mutex after a panic in another thread) is data, not a harness failure
        let mut main_panics = 0u64;
        hk(Hk::ECall(me, "flush".into(), String::new()));
        match catch_unwind(AssertUnwindSafe(|| client.flush())) {
            Ok(r) => hk(Hk::ERet(me, r.map(|_| 0).map_err(|e| format!("{:?}", e.kind())))),
            Err(_) => {
                main_panics += 1;
                hk(Hk::ERet(me, Err("PANIC".into())));
            }
        }
        // quiescent: every thread joined, everything flushed
        let stats = catch_unwind(AssertUnwindSafe(|| stats_ev(&sink.stats()))).unwrap_or_else(|_| {
            main_panics += 1;
            json!({"ev":"panic","msg":"stats() panicked"})
        });
        hk(Hk::ECall(me, "drop".into(), String::new()));
        if catch_unwind(AssertUnwindSafe(move || {
            drop(client);
            drop(sink);
        }))
        .is_err()
        {
            main_panics += 1;
        }
        hk(Hk::ERet(me, Ok(0)));
        let hooks = take_hooks();
        // let the last datagrams arrive, then stop the drainer
        std::thread::sleep(Duration::from_millis(3));
        stop.store(true, std::sync::atomic::Ordering::SeqCst);
        let _ = drainer.join();
        let mut rcv: VecDeque<Vec<u8>> = std::mem::take(&mut *received.lock().unwrap()).into();
        let mut evs: Vec<Value> = vec![];
        if buffered {
            // ---- serialise in the order of the critical sections (lock hooks)
            let mut cur: std::collections::HashMap<u64, (String, String)> = Default::default();
            let mut open_ret: std::collections::HashMap<u64, usize> = Default::default();
            // calls that returned without ever entering the critical section: reported as their own
            // (empty) section as soon as no section is open, so that they do not tear another one apart
            let mut sectionless: Vec<Value> = vec![];
            let mut open_sections = 0usize;
            for h in hooks {
                match h {
                    Hk::ECall(tid, op, m) => {
                        if op == "drop" {
                            evs.push(json!({"ev":"call","op":"drop","hex":"","len":0}));
                        }
                        cur.insert(tid, (op, m));
                    }
                    Hk::Locked(tid) => {
                        open_sections += 1;
                        evs.push(json!({"ev":"lock","t":tid}));
                        if let Some((op, m)) = cur.get(&tid) {
                            evs.push(json!({"ev":"call","op":op,"hex":hex(m.as_bytes()),"len":m.len()}));
                        }
                    }
                    // buffered sinks are not failed here: the k-th attempt is the k-th datagram received
                    Hk::Attempt(tid, len) => match rcv.pop_front() {
                        Some(d) => evs.push(json!({"ev":"att","hex":hex(&d),"len":d.len(),"ok":true,"kind":"","t":tid})),
                        None => evs.push(json!({"ev":"att","hex":"?","len":len,"ok":false,"kind":"lost","t":tid})),
                    },
                    Hk::Unlocking(tid) => {
                        open_ret.insert(tid, evs.len());
                        evs.push(json!(null)); // the result is known when the call returns
                        evs.push(json!({"ev":"unlock","t":tid}));
                        open_sections = open_sections.saturating_sub(1);
                        if open_sections == 0 {
                            evs.append(&mut sectionless);
                        }
                    }
                    Hk::CCall(..) | Hk::FCall(_) | Hk::CRet(..) | Hk::DropBegin(_) | Hk::DropEnd(_) | Hk::WDropped(_) => {}
                    Hk::ERet(tid, r) => {
                        let rv = match &r {
                            Ok(n) => json!({"ev":"ret","ok":true,"n":n,"kind":""}),
                            Err(k) if k == "PANIC" => json!({"ev":"panic","msg":"panic in a shared-sink call"}),
                            Err(k) => json!({"ev":"ret","ok":false,"n":0,"kind":k}),
                        };
                        let c = cur.remove(&tid);
                        match open_ret.remove(&tid) {
                            Some(ix) => evs[ix] = rv,
                            None => {
                                if let Some((op, m)) = c {
                                    if op == "drop" {
                                        evs.push(rv);
                                    } else {
                                        // the call never entered the critical section
                                        let target = if open_sections == 0 { &mut evs } else { &mut sectionless };
                                        target.push(json!({"ev":"call","op":op,"hex":hex(m.as_bytes()),"len":m.len(),"sectionless":true}));
                                        target.push(rv);
                                    }
                                }
                            }
                        }
                    }
                }
            }
            evs.append(&mut sectionless);
        } else {
            // ---- unbuffered: calls do not interact; every emit is call / att / ret, the datagram is
            // found by content (metrics are unique)
            let mut cur: std::collections::HashMap<u64, String> = Default::default();
            for h in hooks {
                match h {
                    Hk::ECall(tid, op, m) if op == "emit" => {
                        cur.insert(tid, m);
                    }
                    Hk::ERet(tid, r) => {
                        if let Some(m) = cur.remove(&tid) {
                            evs.push(json!({"ev":"call","op":"emit","hex":hex(m.as_bytes()),"len":m.len()}));
                            match rcv.iter().position(|d| d == m.as_bytes()) {
                                Some(p) => {
                                    let d = rcv.remove(p).unwrap();
                                    evs.push(json!({"ev":"att","hex":hex(&d),"len":d.len(),"ok":true,"kind":""}));
                                }
                                None => evs.push(json!({"ev":"att","hex":"?","len":m.len(),"ok":false,"kind":"lost"})),
                            }
                            evs.push(match &r {
                                Ok(n) => json!({"ev":"ret","ok":true,"n":n,"kind":""}),
                                Err(k) if k == "PANIC" => json!({"ev":"panic","msg":"panic"}),
                                Err(k) => json!({"ev":"ret","ok":false,"n":0,"kind":k}),
                            });
                        }
                    }
                    _ => {}
                }
            }
        }
        // datagrams nobody accounted for
        for d in rcv {
            evs.push(json!({"ev":"att","hex":hex(&d),"len":d.len(),"ok":true,"kind":"","stray":true}));
        }
        if wire.decoy() > 0 {
            evs.push(json!({"ev":"att","hex":"ff","len":1,"ok":true,"kind":"","decoy":true}));
        }
        if main_panics > 0 {
            evs.push(json!({"ev":"panic","msg":format!("{} harness-side calls panicked: {}", main_panics, last_panic())}));
        }
        if !kind.contains("spy") {
            evs.push(stats);
        }
        for e in evs {
            if !e.is_null() {
                t.ev(e);
            }
        }
        if let Wire::Unix(_, _, p) = &*wire {
            let _ = std::fs::remove_file(p);
        }
        if run == 0 {
            sample = json!({"kind":kind,"cap":mcap,"threads":nthreads,"per_thread":per});
        }
    }
    cadence::verif::install(None);
    let _ = std::fs::remove_dir_all(sockdir());
    t.finish();
    summary(json!({"engine":"sink-conc","seed":seed,"runs":runs,"calls":calls,"events":t.count(),"sample":sample,"uninstrumented":uninstrumented}));
}

// ------------------------------------------------------------------ the whole stack (Stack.tla)
/// logs what reaches the buffered sink (on whatever thread) and when it is released
struct LogSink<S: MetricSink> {
    inner: S,
}
/// microseconds the logging sink rests inside every fourth emit (concurrent stack runs: a worker that is slow to hand a metric over)
static LOGSINK_SLOW_US: std::sync::atomic::AtomicU64 = std::sync::atomic::AtomicU64::new(0);
static LOGSINK_N: std::sync::atomic::AtomicU64 = std::sync::atomic::AtomicU64::new(0);
impl<S: MetricSink> MetricSink for LogSink<S> {
    fn emit(&self, m: &str) -> std::io::Result<usize> {
        hk(Hk::ECall(tid(), "emit".into(), m.to_string()));
        let us = LOGSINK_SLOW_US.load(std::sync::atomic::Ordering::Relaxed);
        if us > 0 && LOGSINK_N.fetch_add(1, std::sync::atomic::Ordering::Relaxed) % 4 == 0 {
            std::thread::sleep(Duration::from_micros(us));
        }
        let r = self.inner.emit(m);
        hk(Hk::ERet(tid(), r.as_ref().map(|n| *n).map_err(|e| format!("{:?}", e.kind()))));
        r
    }
    fn flush(&self) -> std::io::Result<()> {
        hk(Hk::ECall(tid(), "flush".into(), String::new()));
        let r = self.inner.flush();
        hk(Hk::ERet(tid(), r.as_ref().map(|_| 0).map_err(|e| format!("{:?}", e.kind()))));
        r
    }
    fn stats(&self) -> cadence::SinkStats {
        self.inner.stats()
    }
}
impl<S: MetricSink> Drop for LogSink<S> {
    fn drop(&mut self) {
        // the inner sink (and its BufWriter) is dropped right after this body
        hk(Hk::WDropped(tid()));
    }
}

/// StatsdClient -> QueuingMetricSink -> buffered sink -> wire, one producer, random flushes, final drop.
/// The same execution is written twice: as a queue-level trace (QueueTrace.tla) and as a
/// writer-level trace serialised by the lock hooks (WriterTrace.tla).
pub fn stack(a: &Args) {
    let seed = a.num("seed", 1);
    let runs = a.num("runs", 10);
    let tq = Trace::create(&a.req("out-queue"));
    let tw = Trace::create(&a.req("out-writer"));
    install();
    let mut rng = StdRng::seed_from_u64(seed ^ 0x57ac_0008);
    let mut calls = 0u64;
    let mut sample = json!(null);
    let uninstrumented = probe_hooks();
    for run in 0..runs {
        let cap = [8usize, 24, 64, 200, 512][rng.random_range(0..5)];
        let qcap: Option<usize> = [None, Some(1), Some(2), Some(5), Some(64)][rng.random_range(0..5)];
        let udp = run % 2 == 1;
        if uninstrumented.contains(&(if udp { "budp" } else { "bspy" })) {
            continue;
        }
        let n = rng.random_range(5..=80u64);
        let (wire, q): (Wire, QueuingMetricSink) = if udp {
            let (w, addr, s) = udp_wire();
            let inner = LogSink { inner: BufferedUdpMetricSink::with_capacity(&addr[..], s, cap).unwrap() };
            (w, match qcap { Some(c) => QueuingMetricSink::with_capacity(inner, c), None => QueuingMetricSink::from(inner) })
        } else {
            let (rx, s) = BufferedSpyMetricSink::with_capacity(None, Some(cap));
            let inner = LogSink { inner: s };
            (Wire::Spy(rx), match qcap { Some(c) => QueuingMetricSink::with_capacity(inner, c), None => QueuingMetricSink::from(inner) })
        };
        let client = StatsdClient::from_sink("", q);
        let me = tid();
        let mut panicked = 0u64;
        take_hooks();
        // every third run: 2-3 pinned producers share the client (emits and flushes race with each other and with the worker,
        // which is slow to hand over every fourth metric)
        let nprod: u64 = if run % 3 == 2 { 2 + (run / 3) % 2 } else { 1 };
        if nprod > 1 {
            LOGSINK_SLOW_US.store(300, std::sync::atomic::Ordering::Relaxed);
            let client = Arc::new(client);
            let mut js = vec![];
            for p in 0..nprod {
                let c = client.clone();
                let mut prng = StdRng::seed_from_u64(seed * 977 + run * 13 + p);
                js.push(std::thread::spawn(move || {
                    crate::queue::pin_to(1 + p);
                    let me = tid();
                    let mut pan = 0u64;
                    let mut ncalls = 0u64;
                    for i in 0..(n / nprod).max(4) {
                        if prng.random_range(0..5) == 0 {
                            hk(Hk::FCall(me));
                            if catch_unwind(AssertUnwindSafe(|| c.flush())).is_err() {
                                pan += 1;
                            }
                        } else {
                            let len = prng.random_range(0..(cap + 6)).max(8).min(300);
                            let key = metric(run * 10_000 + p * 1000 + i, len);
                            let line = format!("{}:{}|g", key, i);
                            hk(Hk::CCall(me, line.clone()));
                            let r = catch_unwind(AssertUnwindSafe(|| c.gauge(&key, i)));
                            hk(Hk::CRet(me, line, match r {
                                Ok(Ok(m)) => Ok(m.as_metric_str().len()),
                                Ok(Err(e)) => Err(std::error::Error::source(&e).map(|s| s.to_string()).unwrap_or_else(|| e.to_string())),
                                Err(_) => Err("PANIC".into()),
                            }));
                            ncalls += 1;
                        }
                    }
                    (pan, ncalls)
                }));
            }
            for j in js {
                if let Ok((pan, nc)) = j.join() {
                    panicked += pan;
                    calls += nc;
                }
            }
            LOGSINK_SLOW_US.store(0, std::sync::atomic::Ordering::Relaxed);
            hk(Hk::DropBegin(me));
            match Arc::try_unwrap(client) {
                Ok(c) => {
                    if catch_unwind(AssertUnwindSafe(move || drop(c))).is_err() {
                        panicked += 1;
                    }
                }
                Err(_) => panicked += 1,
            }
            hk(Hk::DropEnd(me));
        } else {
        for i in 0..n {
            if rng.random_range(0..8) == 0 {
                hk(Hk::FCall(me));
                if catch_unwind(AssertUnwindSafe(|| client.flush())).is_err() {
                    panicked += 1;
                }
            } else {
                let len = rng.random_range(0..(cap + 6)).max(8).min(300);
                let key = metric(run * 10_000 + i, len);
                let line = format!("{}:{}|g", key, i);
                hk(Hk::CCall(me, line.clone()));
                let r = catch_unwind(AssertUnwindSafe(|| client.gauge(&key, i)));
                hk(Hk::CRet(me, line, match r {
                    Ok(Ok(m)) => Ok(m.as_metric_str().len()),
                    Ok(Err(e)) => Err(std::error::Error::source(&e).map(|s| s.to_string()).unwrap_or_else(|| e.to_string())),
                    Err(_) => Err("PANIC".into()),
                }));
                calls += 1;
            }
            if rng.random_range(0..4) == 0 {
                std::thread::sleep(Duration::from_micros(rng.random_range(0..300)));
            }
        }
        hk(Hk::DropBegin(me));
        if catch_unwind(AssertUnwindSafe(move || drop(client))).is_err() {
            panicked += 1;
        }
        hk(Hk::DropEnd(me));
        }
        // the worker drains, stops and releases the wrapped sink: wait for it (bounded)
        // (after two such waits have expired the tree is known to be broken: the rest wait one second, the check must end)
        static EXPIRED: std::sync::atomic::AtomicU64 = std::sync::atomic::AtomicU64::new(0);
        let limit = if EXPIRED.load(std::sync::atomic::Ordering::Relaxed) >= 2 { Duration::from_secs(1) } else { Duration::from_secs(10) };
        let t0 = Instant::now();
        let mut released = false;
        while t0.elapsed() < limit {
            if HOOKS.lock().unwrap().iter().any(|h| matches!(h, Hk::WDropped(_))) {
                released = true;
                break;
            }
            std::thread::sleep(Duration::from_micros(200));
        }
        if !released {
            EXPIRED.fetch_add(1, std::sync::atomic::Ordering::Relaxed);
        }
        let give_up = EXPIRED.load(std::sync::atomic::Ordering::Relaxed) >= 4;
        std::thread::sleep(Duration::from_millis(5)); // the BufWriter's Drop runs right after LogSink::drop
        let hooks = take_hooks();
        let mut rcv: VecDeque<Vec<u8>> = wire.drain(0, Duration::from_millis(30)).into();
        // ---- queue-level trace
        tq.ev(json!({"ev":"reset","cap":qcap.map(|c| c as u64).unwrap_or(1_000_000),"eh":false,"run":run,"stack":true,"producers":nprod}));
        let mut inflight: std::collections::HashMap<u64, (String, String)> = Default::default();
        for h in &hooks {
            match h {
                Hk::CCall(t, m) => tq.ev(json!({"ev":"ecall","h":1,"m":m,"tid":t})),
                Hk::FCall(t) => tq.ev(json!({"ev":"fcall","tid":t})),
                Hk::CRet(_, m, Ok(nn)) => tq.ev(json!({"ev":"eret","m":m,"ok":true,"n":nn,"msg":"","len":m.len()})),
                Hk::CRet(_, m, Err(k)) if k == "PANIC" => tq.ev(json!({"ev":"epanic","m":m})),
                Hk::CRet(_, m, Err(k)) => tq.ev(json!({"ev":"eret","m":m,"ok":false,"n":0,"msg":k,"len":m.len()})),
                Hk::ECall(t, op, m) => {
                    if op == "emit" {
                        tq.ev(json!({"ev":"wenter","m":m,"tid":t}));
                    }
                    inflight.insert(*t, (op.clone(), m.clone()));
                }
                Hk::ERet(t, r) => {
                    if let Some((op, m)) = inflight.remove(t) {
                        if op == "emit" {
                            match r {
                                Ok(_) => tq.ev(json!({"ev":"wleave","m":m,"o":"ok","msg":""})),
                                Err(k) => tq.ev(json!({"ev":"wleave","m":m,"o":"err","msg":k})),
                            }
                        }
                    }
                }
                Hk::DropBegin(t) => tq.ev(json!({"ev":"dropbegin","h":1,"tid":t})),
                Hk::DropEnd(_) => tq.ev(json!({"ev":"dropend","h":1,"panicked":false})),
                Hk::WDropped(t) => tq.ev(json!({"ev":"wdropped","tid":t})),
                _ => {}
            }
        }
        tq.ev(json!({"ev":"end","released":released,"exited":released}));
        if panicked > 0 {
            tw.ev(json!({"ev":"reset","cap":cap,"tlen":1,"term":"0a","kind":"stack-panic","run":run}));
            tw.ev(json!({"ev":"panic","msg":format!("{} calls of the stack panicked: {}", panicked, last_panic())}));
        }
        // ---- writer-level trace, in the order of the critical sections
        tw.ev(json!({"ev":"reset","cap":cap,"tlen":1,"term":"0a","kind":if udp {"stack-budp"} else {"stack-bspy"},"run":run,"producers":nprod}));
        let mut cur: std::collections::HashMap<u64, (String, String)> = Default::default();
        let mut evs: Vec<Value> = vec![];
        let mut open_ret: std::collections::HashMap<u64, usize> = Default::default();
        let mut dropping = false;
        for h in hooks {
            match h {
                Hk::ECall(t, op, m) => {
                    cur.insert(t, (op, m));
                }
                Hk::Locked(t) => {
                    evs.push(json!({"ev":"lock","t":t}));
                    if let Some((op, m)) = cur.get(&t) {
                        evs.push(json!({"ev":"call","op":op,"hex":hex(m.as_bytes()),"len":m.len()}));
                    }
                }
                Hk::Attempt(t, len) => match rcv.pop_front() {
                    Some(d) => evs.push(json!({"ev":"att","hex":hex(&d),"len":d.len(),"ok":true,"kind":"","t":t})),
                    None => evs.push(json!({"ev":"att","hex":"?","len":len,"ok":false,"kind":"lost","t":t})),
                },
                Hk::Unlocking(t) => {
                    open_ret.insert(t, evs.len());
                    evs.push(json!(null));
                    evs.push(json!({"ev":"unlock","t":t}));
                }
                Hk::ERet(t, r) => {
                    cur.remove(&t);
                    if let Some(ix) = open_ret.remove(&t) {
                        evs[ix] = match r {
                            Ok(nn) => json!({"ev":"ret","ok":true,"n":nn,"kind":""}),
                            Err(k) => json!({"ev":"ret","ok":false,"n":0,"kind":k}),
                        };
                    }
                }
                Hk::WDropped(_) => {
                    dropping = true;
                    evs.push(json!({"ev":"call","op":"drop","hex":"","len":0}));
                }
                _ => {}
            }
        }
        if dropping {
            evs.push(json!({"ev":"ret","ok":true,"n":0,"kind":""}));
        }
        for d in rcv {
            evs.push(json!({"ev":"att","hex":hex(&d),"len":d.len(),"ok":true,"kind":"","stray":true}));
        }
        for e in evs {
            if !e.is_null() {
                tw.ev(e);
            }
        }
        if run == 0 {
            sample = json!({"sink":if udp {"BufferedUdpMetricSink"} else {"BufferedSpyMetricSink"},"cap":cap,"queue_cap":qcap,"calls":n});
        }
        if give_up {
            // the wrapped sink was not released in four runs: broken beyond doubt, the evidence is in the traces
            break;
        }
    }
    cadence::verif::install(None);
    tq.finish();
    tw.finish();
    summary(json!({"engine":"stack-drive","seed":seed,"runs":runs,"calls":calls,"events":tq.count() + tw.count(),"sample":sample,"uninstrumented":uninstrumented}));
}
