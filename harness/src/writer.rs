//! Writer engine: binds spec/Writer.tla + spec/WriterProp.tla to cadence::ext::MultiLineWriter
//! and to the buffered sinks.
//!   writer-replay  (direction A) TLC behaviours -> real writer, compare after every call, record trace
//!   writer-drive   (direction B) seeded random histories on the real writer / spy sink, record trace
use crate::common::*;
use cadence::ext::MultiLineWriter;
use cadence::{BufferedSpyMetricSink, MetricSink};
use rand::rngs::StdRng;
use rand::{Rng, SeedableRng};
use serde_json::{json, Value};
use std::collections::VecDeque;
use std::io::{self, Write};
use std::panic::{catch_unwind, AssertUnwindSafe};
use std::sync::{Arc, Mutex};

#[derive(Clone, Copy, PartialEq, Debug)]
pub enum Outcome {
    Ok,
    Err,
    Intr,
}
impl Outcome {
    fn parse(s: &str) -> Outcome {
        match s {
            "ok" => Outcome::Ok,
            "err" => Outcome::Err,
            "intr" => Outcome::Intr,
            _ => panic!("bad outcome {}", s),
        }
    }
    fn name(&self) -> &'static str {
        match self {
            Outcome::Ok => "ok",
            Outcome::Err => "err",
            Outcome::Intr => "intr",
        }
    }
    #[allow(dead_code)]
    fn kind(&self) -> &'static str {
        match self {
            Outcome::Ok => "",
            Outcome::Err => "ConnectionRefused",
            Outcome::Intr => "Interrupted",
        }
    }
}

#[derive(Default)]
pub struct Shared {
    pub script: VecDeque<Outcome>,
    pub attempts: Vec<(Vec<u8>, Outcome, String)>,
    /// error kind of every failed attempt, in order (any io::ErrorKind but Interrupted, which BufWriter retries)
    pub nerr: usize,
}

/// All-or-nothing datagram writer with a scripted outcome per attempt that records every attempt.
pub struct ScriptedWriter(pub Arc<Mutex<Shared>>);
impl Write for ScriptedWriter {
    fn write(&mut self, b: &[u8]) -> io::Result<usize> {
        let mut s = self.0.lock().unwrap();
        let o = s.script.pop_front().unwrap_or(Outcome::Ok);
        match o {
            Outcome::Ok => {
                s.attempts.push((b.to_vec(), o, String::new()));
                Ok(b.len())
            }
            Outcome::Err => {
                let ks: Vec<io::ErrorKind> = crate::client::ALL_KINDS.iter().map(|k| k.1).filter(|k| *k != io::ErrorKind::Interrupted).collect();
                let k = ks[s.nerr % ks.len()];
                s.nerr += 1;
                s.attempts.push((b.to_vec(), o, format!("{:?}", k)));
                Err(io::Error::new(k, "injected"))
            }
            Outcome::Intr => {
                s.attempts.push((b.to_vec(), o, "Interrupted".into()));
                Err(io::Error::new(io::ErrorKind::Interrupted, "injected"))
            }
        }
    }
    fn flush(&mut self) -> io::Result<()> {
        Ok(())
    }
}

pub fn term_for(tlen: usize) -> Vec<u8> {
    b"\n\r\t\x0b\x0c\x00\x01\x02"[..tlen].to_vec()
}

/// model bytes (metric number i repeated, 0 = terminator position) -> real bytes
fn model_bytes(d: &Value, term: &[u8]) -> Vec<u8> {
    let mut out = vec![];
    let mut z = 0usize;
    for x in d.as_array().unwrap() {
        let i = x.as_u64().unwrap() as usize;
        if i == 0 {
            out.push(term[z % term.len()]);
            z += 1;
        } else {
            z = 0;
            out.push(b'a' + ((i - 1) % 26) as u8);
        }
    }
    out
}

struct Rec<'a> {
    t: &'a Trace,
}
impl<'a> Rec<'a> {
    fn call(&self, op: &str, bytes: &[u8]) {
        self.t.ev(json!({"ev":"call","op":op,"hex":hex(bytes),"len":bytes.len()}));
    }
    fn atts(&self, atts: &[(Vec<u8>, Outcome, String)]) {
        for (d, o, k) in atts {
            self.t.ev(json!({"ev":"att","hex":hex(d),"len":d.len(),"ok":*o==Outcome::Ok,"kind":k}));
        }
    }
    fn ret(&self, r: &Result<usize, String>) {
        match r {
            Ok(n) => self.t.ev(json!({"ev":"ret","ok":true,"n":n,"kind":""})),
            Err(k) => self.t.ev(json!({"ev":"ret","ok":false,"n":0,"kind":k})),
        }
    }
    fn panic(&self) {
        self.t.ev(json!({"ev":"panic","msg":last_panic()}));
    }
}

/// One generic-writer session: the real MultiLineWriter over the scripted writer.
struct Session {
    w: Option<MultiLineWriter<ScriptedWriter>>,
    sh: Arc<Mutex<Shared>>,
    seen: usize,
}
enum CallRes {
    Done(Result<usize, String>, Vec<(Vec<u8>, Outcome, String)>, (usize, usize, usize)),
    Panicked(Vec<(Vec<u8>, Outcome, String)>),
}
impl Session {
    fn new(cap: usize, term: &[u8], script: Vec<Outcome>) -> Session {
        let sh = Arc::new(Mutex::new(Shared { script: script.into(), attempts: vec![], nerr: 0 }));
        // the plain constructor (newline terminator) is used every second time it applies
        static FLIP: std::sync::atomic::AtomicU64 = std::sync::atomic::AtomicU64::new(0);
        let w = if term == b"\n" && FLIP.fetch_add(1, std::sync::atomic::Ordering::Relaxed) % 2 == 0 {
            MultiLineWriter::new(ScriptedWriter(sh.clone()), cap)
        } else {
            MultiLineWriter::with_ending(ScriptedWriter(sh.clone()), cap, std::str::from_utf8(term).unwrap())
        };
        Session { w: Some(w), sh, seen: 0 }
    }
    fn new_attempts(&mut self) -> Vec<(Vec<u8>, Outcome, String)> {
        let s = self.sh.lock().unwrap_or_else(|e| e.into_inner());
        let v = s.attempts[self.seen..].to_vec();
        self.seen = s.attempts.len();
        v
    }
    fn push_script(&mut self, o: Outcome) {
        self.sh.lock().unwrap().script.push_back(o);
    }
    fn call(&mut self, op: &str, bytes: &[u8]) -> CallRes {
        let r = catch_unwind(AssertUnwindSafe(|| match op {
            "emit" => self.w.as_mut().unwrap().write(bytes).map_err(|e| io_kind(&e)),
            "flush" => self.w.as_mut().unwrap().flush().map(|_| 0).map_err(|e| io_kind(&e)),
            "drop" => {
                drop(self.w.take());
                Ok(0)
            }
            _ => unreachable!(),
        }));
        let atts = self.new_attempts();
        match r {
            Ok(res) => {
                let st = self.w.as_ref().map(|w| w.verif_state()).unwrap_or((0, 0, 0));
                CallRes::Done(res, atts, st)
            }
            Err(_) => {
                // the writer is in an unknown state after unwinding: forget it without running Drop logic twice
                CallRes::Panicked(atts)
            }
        }
    }
}

/// Direction A: step TLC's behaviours through the real writer.
pub fn replay(a: &Args) {
    let input = std::fs::read_to_string(a.req("in")).expect("read behaviours");
    let trace = Trace::create(&a.req("out"));
    let rec = Rec { t: &trace };
    let mut n = 0u64;
    let mut diverged: Vec<Value> = vec![];
    let mut ndiv = 0u64;
    let mut calls = 0u64;
    let mut sample: Option<Value> = None;
    for line in input.lines() {
        if line.trim().is_empty() {
            continue;
        }
        let b: Value = serde_json::from_str(line).expect("behaviour json");
        n += 1;
        let cap = b["cap"].as_u64().unwrap() as usize;
        let tlen = b["tlen"].as_u64().unwrap() as usize;
        let term = term_for(tlen);
        let mut script = vec![];
        for c in b["calls"].as_array().unwrap() {
            for at in c["atts"].as_array().unwrap() {
                script.push(Outcome::parse(at["o"].as_str().unwrap()));
            }
        }
        trace.ev(json!({"ev":"reset","cap":cap,"tlen":tlen,"term":hex(&term),"kind":"mlw","beh":n}));
        let mut s = Session::new(cap, &term, script);
        let mut id = 0usize;
        let mut bad: Option<Value> = None;
        for (ci, c) in b["calls"].as_array().unwrap().iter().enumerate() {
            calls += 1;
            let op = c["op"].as_str().unwrap();
            let len = c["len"].as_u64().unwrap() as usize;
            // the model numbers metrics with the smallest number not in the buffer; the first
            // attempt that contains the metric (or the st event) tells which letter it got. We
            // do not need it: bytes only have to be unique among what is buffered, so use the
            // model's own choice when it is visible and a rolling letter otherwise.
            let bytes: Vec<u8> = if op == "emit" {
                let m = c["mid"].as_u64().map(|v| v as usize).unwrap_or_else(|| {
                    id += 1;
                    id
                });
                vec![b'a' + ((m - 1) % 26) as u8; len]
            } else {
                vec![]
            };
            rec.call(op, &bytes);
            match s.call(op, &bytes) {
                CallRes::Panicked(atts) => {
                    rec.atts(&atts);
                    rec.panic();
                    if bad.is_none() {
                        bad = Some(json!({"beh":n,"call":ci,"what":"panic","msg":last_panic()}));
                    }
                    break;
                }
                CallRes::Done(res, atts, st) => {
                    rec.atts(&atts);
                    rec.ret(&res);
                    if op != "drop" {
                        trace.ev(json!({"ev":"st","written":st.0,"buffered":st.1,"capacity":st.2}));
                    }
                    // compare with the model's prediction for this call
                    let exp_atts: Vec<(Vec<u8>, Outcome)> = c["atts"]
                        .as_array()
                        .unwrap()
                        .iter()
                        .map(|at| (model_bytes(&at["d"], &term), Outcome::parse(at["o"].as_str().unwrap())))
                        .collect();
                    let exp_res: Result<usize, String> = if c["ok"].as_bool().unwrap() {
                        Ok(c["n"].as_u64().unwrap() as usize)
                    } else {
                        Err(c["kind"].as_str().unwrap().to_string())
                    };
                    let mut why = vec![];
                    let got_atts: Vec<(Vec<u8>, Outcome)> = atts.iter().map(|(d, o, _)| (d.clone(), *o)).collect();
                    if exp_atts != got_atts {
                        why.push(format!("attempts: model {:?} code {:?}", show(&exp_atts), show(&got_atts)));
                    }
                    // the model has one generic error kind; the harness rotates through all io::ErrorKinds
                    let res_cmp: Result<usize, String> = match &res {
                        Err(k) if k != "Interrupted" => Err("ConnectionRefused".into()),
                        other => other.clone(),
                    };
                    if exp_res != res_cmp {
                        why.push(format!("result: model {:?} code {:?}", exp_res, res));
                    }
                    if op != "drop" {
                        let ew = c["written"].as_u64().unwrap() as usize;
                        let eb = c["blen"].as_u64().unwrap() as usize;
                        if (ew, eb) != (st.0, st.1) {
                            why.push(format!("state: model written={} buffered={} code written={} buffered={}", ew, eb, st.0, st.1));
                        }
                    }
                    if !why.is_empty() && bad.is_none() {
                        bad = Some(json!({"beh":n,"call":ci,"op":op,"why":why,"behaviour":b.clone()}));
                    }
                }
            }
        }
        if sample.is_none() {
            sample = Some(b.clone());
        }
        if let Some(x) = bad {
            ndiv += 1;
            if diverged.len() < 5 {
                diverged.push(x);
            }
        }
    }
    trace.finish();
    summary(json!({"engine":"writer-replay","behaviours":n,"calls":calls,"events":trace.count(),
        "model_divergences":ndiv,"first_divergences":diverged,"sample":sample}));
}

fn show(a: &[(Vec<u8>, Outcome)]) -> Vec<String> {
    a.iter().map(|(d, o)| format!("{}:{}", String::from_utf8_lossy(d).escape_default(), o.name())).collect()
}

/// metric text of exactly `len` bytes that never contains a terminator byte
fn metric_bytes(seq: u64, len: usize) -> Vec<u8> {
    // (multi-byte UTF-8 inside: a length counted in characters instead of bytes would show)
    let mut s = format!("m{}.\u{e9}k:{}|c|#t:{}", seq, seq % 97, seq % 7).into_bytes();
    if s.len() > len {
        // short metrics: a rolling letter, as in the model
        return vec![b'a' + (seq % 26) as u8; len];
    }
    while s.len() < len {
        s.push(b'a' + ((seq + s.len() as u64) % 26) as u8);
    }
    s
}

fn pick_len(rng: &mut StdRng, cap: usize, tlen: usize, filled: usize) -> usize {
    // biased to exact fit / one over / oversize / tiny
    let left = cap.saturating_sub(filled);
    let choice = rng.random_range(0..12);
    let l: i64 = match choice {
        0 => left as i64 - tlen as i64,       // exactly fills the remaining space
        1 => left as i64 - tlen as i64 + 1,   // one byte too many
        2 => left as i64 - tlen as i64 - 1,   // one byte spare
        3 => cap as i64 - tlen as i64,        // exactly fills an empty buffer
        4 => cap as i64 - tlen as i64 + 1,    // smallest oversize
        5 => cap as i64 + rng.random_range(0..4),
        6 => 0,
        7 => 1,
        _ => rng.random_range(0..(cap as i64 / 2 + 3)),
    };
    l.max(0) as usize
}

const CAPS: [usize; 14] = [0, 1, 2, 3, 4, 7, 8, 9, 16, 31, 64, 100, 512, 1432];

/// Direction B: seeded random histories.
pub fn drive(a: &Args) {
    let seed = a.num("seed", 1);
    let runs = a.num("runs", 20);
    let ops = a.num("ops", 200);
    let kind = a.get("kind").unwrap_or_else(|| "mlw".into());
    let trace = Trace::create(&a.req("out"));
    let rec = Rec { t: &trace };
    let mut rng = StdRng::seed_from_u64(seed ^ 0x57a7_0001);
    let mut calls = 0u64;
    let mut npanic = 0u64;
    let mut sample = json!(null);
    for run in 0..runs {
        let cap = CAPS[(run as usize + rng.random_range(0..CAPS.len())) % CAPS.len()];
        // every tenth writer run uses a capacity around and beyond the largest UDP payload (Unix sockets and users of the public
        // writer configure such sizes); few calls, because every datagram is tens of kilobytes of trace
        let big = kind == "mlw" && run % 10 == 9;
        let cap = if big { [65_508usize, 70_000, 100_000, 65_507][((run / 10) % 4) as usize] } else { cap };
        let ops = if big { ops.min(16) } else { ops };
        match kind.as_str() {
            "mlw" => {
                let tlen = [1usize, 1, 2, 0, 3][rng.random_range(0..5)];
                let term = term_for(tlen);
                let pfault = [0.0, 0.0, 0.05, 0.2, 0.5][rng.random_range(0..5)];
                trace.ev(json!({"ev":"reset","cap":cap,"tlen":tlen,"term":hex(&term),"kind":"mlw","run":run}));
                let mut s = Session::new(cap, &term, vec![]);
                let mut seq = 0u64;
                let mut dead = false;
                let mut last_failed = false;
                for opi in 0..ops {
                    // decide the outcome of the attempts this call may make (at most a few)
                    for _ in 0..4 {
                        let o = if rng.random_bool(pfault) && !(big && opi < 7) {
                            if rng.random_bool(0.3) { Outcome::Intr } else { Outcome::Err }
                        } else {
                            Outcome::Ok
                        };
                        s.push_script(o);
                    }
                    // a caller whose last call failed often simply flushes (again) next
                    // the large-capacity runs start with a fixed, fault-free programme (never left to the seed): a metric that exactly
                    // fills the empty buffer, a flush, half a buffer, a metric that exactly fills what remains, a small one, the
                    // smallest oversize metric, and one as long as the largest UDP payload
                    let scripted: Option<Option<usize>> = if big {
                        let filled = s.w.as_ref().map(|w| w.verif_state().0).unwrap_or(0);
                        match opi {
                            0 => Some(Some(cap.saturating_sub(tlen))),
                            1 => Some(None),
                            2 => Some(Some(cap / 2)),
                            3 => Some(Some(cap.saturating_sub(filled).saturating_sub(tlen))),
                            4 => Some(Some(5)),
                            5 => Some(Some(cap.saturating_sub(tlen) + 1)),
                            6 => Some(Some(65_507usize.saturating_sub(tlen))),
                            _ => None,
                        }
                    } else {
                        None
                    };
                    let (op, bytes) = if scripted == Some(None) || (scripted.is_none() && (rng.random_range(0..10) == 0 || (last_failed && rng.random_bool(0.5)))) {
                        ("flush", vec![])
                    } else {
                        seq += 1;
                        let filled = s.w.as_ref().map(|w| w.verif_state().0).unwrap_or(0);
                        let mut len = match scripted { Some(Some(l)) => l, _ => pick_len(&mut rng, cap, tlen, filled) };
                        if tlen == 0 && len == 0 {
                            len = 1; // excluded degenerate case: nothing observable (DESIGN.md C05)
                        }
                        ("emit", metric_bytes(seq, len))
                    };
                    calls += 1;
                    rec.call(op, &bytes);
                    match s.call(op, &bytes) {
                        CallRes::Done(res, atts, st) => {
                            last_failed = res.is_err();
                            rec.atts(&atts);
                            rec.ret(&res);
                            trace.ev(json!({"ev":"st","written":st.0,"buffered":st.1,"capacity":st.2}));
                        }
                        CallRes::Panicked(atts) => {
                            rec.atts(&atts);
                            rec.panic();
                            npanic += 1;
                            dead = true;
                            break;
                        }
                    }
                    // unused scripted outcomes do not carry over
                    s.sh.lock().unwrap().script.clear();
                }
                if !dead {
                    if rng.random_bool(0.3) {
                        s.push_script(Outcome::Err);
                    }
                    rec.call("drop", &[]);
                    match s.call("drop", &[]) {
                        CallRes::Done(res, atts, _) => {
                            rec.atts(&atts);
                            rec.ret(&res);
                        }
                        CallRes::Panicked(atts) => {
                            rec.atts(&atts);
                            rec.panic();
                            npanic += 1;
                        }
                    }
                }
                if run == 0 {
                    sample = json!({"kind":"mlw","cap":cap,"tlen":tlen,"pfault":pfault,"ops":ops});
                }
            }
            "spy" => {
                // The real BufferedSpyMetricSink. A bounded channel is the fault injector: an attempt
                // fails exactly when the channel is full and only the harness drains it. What a call
                // sent is counted with Receiver::len() right after the call (nothing is removed), the
                // bytes are filled in when the channel is drained later: the channel is FIFO, so the
                // k-th message sent is the k-th received - no guessing.
                let chan: Option<usize> = [None, None, Some(1), Some(2), Some(3)][rng.random_range(0..5)];
                let use_default = rng.random_range(0..8) == 0 || run % 8 == 7;
                let cap = if use_default { 512 } else { cap };
                let mut evs: Vec<Value> = vec![];
                let mut holes: VecDeque<usize> = VecDeque::new();
                evs.push(json!({"ev":"reset","cap":cap,"tlen":1,"term":"0a","kind":"spy","run":run}));
                let (rx, sink) = if use_default && chan.is_none() && run % 2 == 1 {
                    BufferedSpyMetricSink::new()
                } else if use_default {
                    BufferedSpyMetricSink::with_capacity(chan, None)
                } else {
                    BufferedSpyMetricSink::with_capacity(chan, Some(cap))
                };
                let mut sink = Some(sink);
                let mut seq = 0u64;
                let mut filled = 0usize;
                let mut last_failed = false;
                let mut inchan = 0usize;
                let mut alive = true;
                fn drain(rx: &crossbeam_channel::Receiver<Vec<u8>>, evs: &mut Vec<Value>, holes: &mut VecDeque<usize>) {
                    while let Ok(d) = rx.try_recv() {
                        match holes.pop_front() {
                            Some(ix) => evs[ix] = json!({"ev":"att","hex":hex(&d),"len":d.len(),"ok":true,"kind":""}),
                            // a message nobody accounted for: report it where it was found
                            None => evs.push(json!({"ev":"att","hex":hex(&d),"len":d.len(),"ok":true,"kind":""})),
                        }
                    }
                }
                let account = |evs: &mut Vec<Value>, holes: &mut VecDeque<usize>, inchan: &mut usize| -> usize {
                    let now = rx.len();
                    let delta = now.saturating_sub(*inchan);
                    for _ in 0..delta {
                        holes.push_back(evs.len());
                        evs.push(json!(null));
                    }
                    *inchan = now;
                    delta
                };
                for _ in 0..ops {
                    if chan.is_none() || rng.random_bool(0.5) {
                        drain(&rx, &mut evs, &mut holes);
                        inchan = 0;
                    }
                    let (op, text) = if rng.random_range(0..10) == 0 || (last_failed && rng.random_bool(0.5)) {
                        ("flush", String::new())
                    } else {
                        seq += 1;
                        let len = pick_len(&mut rng, cap, 1, filled);
                        ("emit", String::from_utf8(metric_bytes(seq, len)).unwrap())
                    };
                    calls += 1;
                    evs.push(json!({"ev":"call","op":op,"hex":hex(text.as_bytes()),"len":text.len()}));
                    let r = catch_unwind(AssertUnwindSafe(|| match op {
                        "emit" => sink.as_ref().unwrap().emit(&text).map_err(|e| io_kind(&e)),
                        _ => sink.as_ref().unwrap().flush().map(|_| 0).map_err(|e| io_kind(&e)),
                    }));
                    let wrote = account(&mut evs, &mut holes, &mut inchan);
                    last_failed = matches!(r, Ok(Err(_)));
                    match r {
                        Ok(res) => {
                            match &res {
                                // the refused attempt itself cannot be seen from outside the sink
                                Err(k) => evs.push(json!({"ev":"att","hex":"?","len":0,"ok":false,"kind":k})),
                                Ok(n) => {
                                    if op == "emit" {
                                        filled = if wrote > 0 { 0 } else { filled + *n + 1 };
                                    } else {
                                        filled = 0;
                                    }
                                }
                            }
                            match &res {
                                Ok(n) => evs.push(json!({"ev":"ret","ok":true,"n":n,"kind":""})),
                                Err(k) => evs.push(json!({"ev":"ret","ok":false,"n":0,"kind":k})),
                            }
                        }
                        Err(_) => {
                            evs.push(json!({"ev":"panic","msg":last_panic()}));
                            npanic += 1;
                            alive = false;
                            break;
                        }
                    }
                }
                drain(&rx, &mut evs, &mut holes);
                inchan = 0;
                if alive {
                    evs.push(json!({"ev":"call","op":"drop","hex":"","len":0}));
                    let r = catch_unwind(AssertUnwindSafe(|| drop(sink.take())));
                    account(&mut evs, &mut holes, &mut inchan);
                    drain(&rx, &mut evs, &mut holes);
                    match r {
                        Ok(_) => evs.push(json!({"ev":"ret","ok":true,"n":0,"kind":""})),
                        Err(_) => {
                            evs.push(json!({"ev":"panic","msg":last_panic()}));
                            npanic += 1;
                        }
                    }
                }
                for e in evs {
                    if !e.is_null() {
                        trace.ev(e);
                    }
                }
                if run == 0 {
                    sample = json!({"kind":"spy","cap":cap,"chan":chan,"ops":ops});
                }
            }
            other => {
                eprintln!("unknown kind {}", other);
                std::process::exit(2);
            }
        }
    }
    trace.finish();
    summary(json!({"engine":"writer-drive","kind":kind,"seed":seed,"runs":runs,"calls":calls,
        "events":trace.count(),"panics":npanic,"sample":sample}));
}
