//! cvh - conformance harness binding the TLA+ specifications under /verif/spec to the real
//! cadence code (built from /repo's working tree with --cfg cadence_verif).
mod client;
mod common;
mod holder;
mod queue;
mod sink;
mod writer;

fn main() {
    let argv: Vec<String> = std::env::args().collect();
    if argv.len() < 2 {
        eprintln!("usage: cvh <subcommand> [--opt value]...");
        std::process::exit(2);
    }
    let args = common::Args(argv[2..].to_vec());
    common::quiet_panics();
    match argv[1].as_str() {
        "writer-replay" => writer::replay(&args),
        "writer-drive" => writer::drive(&args),
        "client-replay" => client::replay(&args),
        "client-drive" => client::drive(&args),
        "hostile-api" => client::hostile_api(&args),
        "values-replay" => client::values_replay(&args),
        "macro-child" => client::macro_child(&args),
        "holder-probe" => holder::probe(&args),
        "holder-replay" => holder::replay(&args),
        "holder-stress" => holder::stress(&args),
        "holder-sched" => holder::sched_random(&args),
        "sink-drive" => sink::drive(&args),
        "sink-conc" => sink::conc(&args),
        "stack-drive" => sink::stack(&args),
        "queue-stress" => queue::stress(&args),
        "queue-replay" => queue::replay(&args),
        other => {
            eprintln!("unknown subcommand {}", other);
            std::process::exit(2);
        }
    }
}
