//! Holder engine (C18): binds spec/Holder.tla + spec/HolderProp.tla to cadence_macros::SingletonHolder.
//!   holder-probe   (binding C) the Orderings the source passes to each atomic operation
//!   holder-replay  (binding A) TLC interleavings replayed with threads parked at the shim points
//!   holder-stress  (binding B) free-running threads, API-level trace
use crate::common::*;
use crate::queue::{go, point, sched_enable, step_to, tid, tr, wait_sched, STEP_TIMEOUT, TRACE};
use cadence_macros::SingletonHolder;
use rand::rngs::StdRng;
use rand::{Rng, SeedableRng};
use serde_json::{json, Value};
use std::cell::Cell;
use std::sync::atomic::{AtomicBool, Ordering};
use std::sync::mpsc;
use std::sync::{Arc, Mutex};
use std::time::{Duration, Instant};

/// a fresh holder, obtained in each of the ways the API offers, in turn (`new()` is what the global uses; `Default` is public too)
fn fresh_holder() -> SingletonHolder<Val> {
    static TURN: std::sync::atomic::AtomicU64 = std::sync::atomic::AtomicU64::new(0);
    match TURN.fetch_add(1, Ordering::Relaxed) % 3 {
        0 => SingletonHolder::new(),
        1 => SingletonHolder::default(),
        _ => Default::default(),
    }
}

#[derive(Default)]
pub struct Val {
    pub id: u64,
}

thread_local! { static ROLE: Cell<u64> = const { Cell::new(0) }; }
static LOG_SHIM: AtomicBool = AtomicBool::new(false);
static PROBE: Mutex<Vec<(String, u64, u64)>> = Mutex::new(Vec::new());

fn ord_name(o: u64) -> &'static str {
    match o {
        0 => "Relaxed",
        1 => "Release",
        2 => "Acquire",
        3 => "AcqRel",
        4 => "SeqCst",
        _ => "Unknown",
    }
}

fn install(parking: bool) {
    cadence::verif::install(Some(Arc::new(move |site: &'static str, _obj: usize, a: u64, b: u64| {
        if !(site.starts_with("a.") || site.starts_with("c.")) {
            return;
        }
        let t = ROLE.with(|r| r.get());
        if let Ok(mut p) = PROBE.lock() {
            if p.len() < 10_000 {
                p.push((site.to_string(), a, b));
            }
        }
        if LOG_SHIM.load(Ordering::SeqCst) {
            match site {
                "a.load" => tr().ev(json!({"ev":"load","t":t,"o":ord_name(a),"val":b})),
                "a.store" => tr().ev(json!({"ev":"store","t":t,"o":ord_name(a),"val":b})),
                "a.cas" => tr().ev(json!({"ev":"cas","t":t,"so":ord_name(a >> 8),"fo":ord_name(a & 0xff),
                    "ok":(b >> 16) == 1,"prev":(b >> 8) & 0xff,"new":b & 0xff})),
                "c.read" => tr().ev(json!({"ev":"cellr","t":t})),
                "c.write" => tr().ev(json!({"ev":"cellw","t":t})),
                _ => {}
            }
        }
        if parking && (site.ends_with(".pre") || site == "c.read" || site == "c.write") {
            point(site, a, b);
        }
    })));
}

/// Binding C: which Ordering does the source give to each atomic operation?
pub fn probe(_a: &Args) {
    install(false);
    PROBE.lock().unwrap().clear();
    let h: SingletonHolder<Val> = SingletonHolder::new();
    let _ = h.get();
    let _ = h.is_set();
    h.set(Val { id: 1 });
    h.set(Val { id: 2 });
    let _ = h.get();
    let _ = h.is_set();
    cadence::verif::install(None);
    let p = PROBE.lock().unwrap().clone();
    let mut cas_s = std::collections::BTreeSet::new();
    let mut cas_f = std::collections::BTreeSet::new();
    let mut store = std::collections::BTreeSet::new();
    let mut load = std::collections::BTreeSet::new();
    let mut shape = vec![];
    for (site, a, b) in &p {
        match site.as_str() {
            "a.cas" => {
                cas_s.insert(ord_name(a >> 8));
                cas_f.insert(ord_name(a & 0xff));
                shape.push(format!("cas:{}", if (b >> 16) == 1 { "ok" } else { "fail" }));
            }
            "a.store" => {
                store.insert(ord_name(*a));
                shape.push(format!("store:{}", b));
            }
            "a.load" => {
                load.insert(ord_name(*a));
                shape.push("load".to_string());
            }
            "c.read" => shape.push("cellr".into()),
            "c.write" => shape.push("cellw".into()),
            _ => {}
        }
    }
    // the operation sequence Holder.tla models for get, is_set, set, set(ignored), get, is_set
    let expected = ["load", "load", "cas:ok", "cellw", "store:2", "cas:fail", "load", "cellr", "load"];
    let matches = shape.iter().map(|s| s.as_str()).collect::<Vec<_>>() == expected
        && cas_s.len() == 1 && cas_f.len() == 1 && store.len() == 1 && load.len() == 1;
    summary(json!({"engine":"holder-probe","shape":shape,"model_applies":matches,
        "OrdCasS":cas_s.iter().next(),"OrdCasF":cas_f.iter().next(),"OrdStore":store.iter().next(),"OrdLoad":load.iter().next()}));
}

enum Cmd {
    Op(String, u64),
    Quit,
}
struct Th {
    tx: mpsc::Sender<Cmd>,
    done: mpsc::Receiver<(String, u64)>,
    tid: u64,
    join: std::thread::JoinHandle<()>,
}

fn spawn_thread(role: u64, h: Arc<SingletonHolder<Val>>) -> Th {
    let (tx, rx) = mpsc::channel::<Cmd>();
    let (dtx, drx) = mpsc::channel();
    let (ttx, trx) = mpsc::channel();
    let join = std::thread::spawn(move || {
        ROLE.with(|r| r.set(role));
        ttx.send(tid()).unwrap();
        while let Ok(Cmd::Op(op, id)) = rx.recv() {
            let r = run_op(&h, role, &op, id);
            let _ = dtx.send(r);
        }
    });
    let tid = trx.recv().unwrap();
    Th { tx, done: drx, tid, join }
}

fn run_op(h: &SingletonHolder<Val>, role: u64, op: &str, id: u64) -> (String, u64) {
    tr().ev(json!({"ev":"call","t":role,"op":op,"id":id}));
    // a panic of the holder is data (C18 / C20), never a dead harness thread
    let r: (String, u64) = std::panic::catch_unwind(std::panic::AssertUnwindSafe(|| match op {
        "set" => {
            h.set(Val { id });
            ("unit".to_string(), id)
        }
        "get" => match h.get() {
            Some(v) => ("some".to_string(), v.id),
            None => ("none".to_string(), 0),
        },
        _ => {
            if h.is_set() {
                ("true".to_string(), 0)
            } else {
                ("false".to_string(), 0)
            }
        }
    }))
    .unwrap_or_else(|_| ("panic".to_string(), 0));
    tr().ev(json!({"ev":"ret","t":role,"op":op,"r":r.0,"id":r.1}));
    r
}

pub fn replay(a: &Args) {
    let input = std::fs::read_to_string(a.req("in")).expect("read behaviours");
    let maxdiv = a.num("maxdiv", 4);
    let _ = TRACE.set(Arc::new(Trace::create(&a.req("out"))));
    install(true);
    LOG_SHIM.store(true, Ordering::SeqCst);
    let (mut nbeh, mut nsteps, mut ndiv) = (0u64, 0u64, 0u64);
    let mut skipped = 0u64;
    let mut divs: Vec<Value> = vec![];
    let mut sample = None;
    for line in input.lines() {
        if line.trim().is_empty() {
            continue;
        }
        if ndiv >= maxdiv {
            skipped += 1;
            continue;
        }
        let b: Value = serde_json::from_str(line).expect("behaviour");
        nbeh += 1;
        if sample.is_none() {
            sample = Some(b.clone());
        }
        let steps = b["steps"].as_array().unwrap();
        let nthreads = steps.iter().map(|s| s["t"].as_u64().unwrap()).max().unwrap_or(1);
        tr().ev(json!({"ev":"reset","threads":nthreads,"sched":true,"beh":nbeh,"behaviour":b.clone()}));
        let holder: Arc<SingletonHolder<Val>> = Arc::new(fresh_holder());
        sched_enable(true);
        let ths: Vec<Th> = (1..=nthreads).map(|r| spawn_thread(r, holder.clone())).collect();
        let mut cur_op: Vec<String> = vec![String::new(); nthreads as usize + 1];
        let mut why: Option<String> = None;
        let finish = |t: &Th| -> Result<(String, u64), String> {
            go(t.tid);
            t.done.recv_timeout(STEP_TIMEOUT).map_err(|_| "call did not return".to_string())
        };
        for (si, st) in steps.iter().enumerate() {
            nsteps += 1;
            let act = st["a"].as_str().unwrap();
            let t = st["t"].as_u64().unwrap() as usize;
            let th = &ths[t - 1];
            let r: Result<(), String> = (|| {
                match act {
                    "Start" => {
                        let op = st["op"].as_str().unwrap().to_string();
                        cur_op[t] = op.clone();
                        th.tx.send(Cmd::Op(op.clone(), st["id"].as_u64().unwrap())).map_err(|_| "thread gone")?;
                        let want = if op == "set" { "a.cas.pre" } else { "a.load.pre" };
                        wait_sched(STEP_TIMEOUT, |g| g.parked.get(&th.tid).filter(|p| p.0 == want).map(|_| ()))
                            .ok_or(format!("{} did not reach {}", op, want))?;
                        Ok(())
                    }
                    "CasOk" => step_to(th.tid, &["c.write"]).map(|_| ()),
                    "CasFail" => {
                        let r = finish(th)?;
                        if r.0 != "unit" {
                            return Err(format!("set returned {:?}", r));
                        }
                        Ok(())
                    }
                    "WriteCell" => step_to(th.tid, &["a.store.pre"]).map(|_| ()),
                    "Store" => finish(th).map(|_| ()),
                    "Load" => {
                        let complete = st["val"].as_u64().unwrap() == 2;
                        if complete && cur_op[t] == "get" {
                            step_to(th.tid, &["c.read"]).map(|_| ())
                        } else {
                            let r = finish(th)?;
                            let exp = match (cur_op[t].as_str(), complete) {
                                ("get", _) => "none",
                                (_, true) => "true",
                                (_, false) => "false",
                            };
                            if r.0 != exp {
                                return Err(format!("{} result: model {} code {}", cur_op[t], exp, r.0));
                            }
                            Ok(())
                        }
                    }
                    "ReadCell" => {
                        let r = finish(th)?;
                        let v = st["v"].as_u64().unwrap();
                        if r != ("some".to_string(), v) {
                            return Err(format!("get result: model some({}) code {:?}", v, r));
                        }
                        Ok(())
                    }
                    other => Err(format!("unknown action {}", other)),
                }
            })();
            if let Err(e) = r {
                why = Some(format!("step {} {}(t{}): {}", si, act, t, e));
                break;
            }
        }
        sched_enable(false);
        for t in ths {
            let _ = t.tx.send(Cmd::Quit);
            let t0 = Instant::now();
            while !t.join.is_finished() && t0.elapsed() < Duration::from_secs(5) {
                std::thread::sleep(Duration::from_micros(100));
            }
        }
        if let Some(w) = why {
            ndiv += 1;
            tr().ev(json!({"ev":"note","divergence":w}));
            if divs.len() < 5 {
                divs.push(json!({"beh":nbeh,"why":w,"behaviour":b.clone()}));
            }
        }
    }
    cadence::verif::install(None);
    tr().finish();
    summary(json!({"engine":"holder-replay","behaviours":nbeh,"steps":nsteps,"events":tr().count(),
        "model_divergences":ndiv,"skipped_after_divergences":skipped,"first_divergences":divs,"sample":sample}));
}

/// Binding B: free-running threads hammering one fresh holder per run; API-level events only
/// (the order in which racing threads would log their atomic operations is not the real order).
pub fn stress(a: &Args) {
    let seed = a.num("seed", 1);
    let runs = a.num("runs", 50);
    let _ = TRACE.set(Arc::new(Trace::create(&a.req("out"))));
    install(false);
    LOG_SHIM.store(false, Ordering::SeqCst);
    let mut rng = StdRng::seed_from_u64(seed ^ 0x401d_0003);
    let mut ops = 0u64;
    for run in 0..runs {
        let n = rng.random_range(2..=4u64);
        tr().ev(json!({"ev":"reset","threads":n,"sched":false,"run":run}));
        let holder: Arc<SingletonHolder<Val>> = Arc::new(fresh_holder());
        let start = Arc::new(std::sync::Barrier::new(n as usize));
        let mut js = vec![];
        for role in 1..=n {
            let h = holder.clone();
            let st = start.clone();
            let k = rng.random_range(2..=6u64);
            let mut prng = StdRng::seed_from_u64(seed * 1_000_003 + run * 17 + role);
            ops += k;
            js.push(std::thread::spawn(move || {
                ROLE.with(|r| r.set(role));
                // really parallel: racing setters and readers on distinct CPUs, released together
                crate::queue::pin_to(role);
                st.wait();
                for i in 0..k {
                    let op = ["set", "get", "get", "is_set"][prng.random_range(0..4)];
                    run_op(&h, role, op, role * 10 + i + 1);
                }
            }));
        }
        for j in js {
            let _ = j.join();
        }
    }
    cadence::verif::install(None);
    tr().finish();
    summary(json!({"engine":"holder-stress","seed":seed,"runs":runs,"ops":ops,"events":tr().count()}));
}

/// Binding A', independent of the shape Holder.tla models: a RANDOM cooperative scheduler over the shim
/// points. Every thread parks before each atomic operation / cell access; the driver releases one
/// parked thread at a time, chosen at random, so the logged order is the real order and the
/// vector-clock monitor can judge any algorithm that goes through the shim.
pub fn sched_random(a: &Args) {
    let seed = a.num("seed", 1);
    let runs = a.num("runs", 200);
    let _ = TRACE.set(Arc::new(Trace::create(&a.req("out"))));
    install(true);
    LOG_SHIM.store(true, Ordering::SeqCst);
    let mut rng = StdRng::seed_from_u64(seed ^ 0x5c4e_0009);
    let mut steps = 0u64;
    let mut stuck = 0u64;
    for run in 0..runs {
        let n = rng.random_range(2..=3u64);
        tr().ev(json!({"ev":"reset","threads":n,"sched":true,"run":run,"random_schedule":true}));
        let holder: Arc<SingletonHolder<Val>> = Arc::new(fresh_holder());
        sched_enable(true);
        let done: Vec<Arc<AtomicBool>> = (0..n).map(|_| Arc::new(AtomicBool::new(false))).collect();
        let mut tids = vec![];
        let mut joins = vec![];
        for role in 1..=n {
            let h = holder.clone();
            let d = done[role as usize - 1].clone();
            // programs favour the racy shapes: setters first, readers overlapping
            let k = rng.random_range(1..=3);
            let prog: Vec<&'static str> = (0..k).map(|i| if i == 0 && role <= 2 && rng.random_bool(0.7) { "set" } else { ["set", "get", "get", "is_set"][rng.random_range(0..4)] }).collect();
            let (ttx, trx) = mpsc::channel();
            joins.push(std::thread::spawn(move || {
                ROLE.with(|r| r.set(role));
                ttx.send(tid()).unwrap();
                for (i, op) in prog.iter().enumerate() {
                    run_op(&h, role, op, role * 10 + i as u64 + 1);
                }
                d.store(true, Ordering::SeqCst);
                crate::queue::sched().cv.notify_all();
            }));
            tids.push(trx.recv().unwrap());
        }
        // release one parked thread at a time
        loop {
            let all_done = done.iter().all(|d| d.load(Ordering::SeqCst));
            if all_done {
                break;
            }
            // wait until every unfinished thread is parked
            let ready = wait_sched(STEP_TIMEOUT, |g| {
                let mut parked = vec![];
                for (i, t) in tids.iter().enumerate() {
                    if done[i].load(Ordering::SeqCst) {
                        continue;
                    }
                    if g.parked.contains_key(t) && !g.go.contains_key(t) {
                        parked.push(*t);
                    } else {
                        return None;
                    }
                }
                Some(parked)
            });
            match ready {
                Some(p) if !p.is_empty() => {
                    let t = p[rng.random_range(0..p.len())];
                    go(t);
                    steps += 1;
                }
                Some(_) => {}
                None => {
                    if done.iter().all(|d| d.load(Ordering::SeqCst)) {
                        break;
                    }
                    stuck += 1;
                    tr().ev(json!({"ev":"note","stuck":true}));
                    break;
                }
            }
        }
        sched_enable(false);
        for j in joins {
            let t0 = Instant::now();
            while !j.is_finished() && t0.elapsed() < Duration::from_secs(5) {
                std::thread::sleep(Duration::from_micros(100));
            }
        }
    }
    cadence::verif::install(None);
    tr().finish();
    summary(json!({"engine":"holder-sched","seed":seed,"runs":runs,"steps":steps,"stuck":stuck,"events":tr().count()}));
}
