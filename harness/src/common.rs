//! Shared helpers: NDJSON trace sink, hex, argument parsing, panic silencing.
use serde_json::{json, Value};
use std::fs::File;
use std::io::{BufWriter, Write};
use std::sync::Mutex;

pub fn hex(b: &[u8]) -> String {
    let mut s = String::with_capacity(b.len() * 2);
    for x in b {
        s.push_str(&format!("{:02x}", x));
    }
    s
}

/// NDJSON trace writer. Events are appended in call order under one mutex; the
/// position in the file is the per-process sequence number (never wall-clock time).
pub struct Trace {
    out: Mutex<(BufWriter<File>, u64)>,
}

impl Trace {
    pub fn create(path: &str) -> Trace {
        let f = File::create(path).unwrap_or_else(|e| panic!("cannot create {}: {}", path, e));
        Trace { out: Mutex::new((BufWriter::new(f), 0)) }
    }
    pub fn ev(&self, v: Value) {
        let mut g = self.out.lock().unwrap_or_else(|e| e.into_inner());
        g.1 += 1;
        serde_json::to_writer(&mut g.0, &v).unwrap();
        g.0.write_all(b"\n").unwrap();
    }
    pub fn count(&self) -> u64 {
        self.out.lock().unwrap_or_else(|e| e.into_inner()).1
    }
    pub fn finish(&self) {
        self.out.lock().unwrap_or_else(|e| e.into_inner()).0.flush().unwrap();
    }
}

/// `--name value` style arguments.
pub struct Args(pub Vec<String>);
impl Args {
    pub fn get(&self, name: &str) -> Option<String> {
        let key = format!("--{}", name);
        self.0.iter().position(|a| *a == key).and_then(|i| self.0.get(i + 1).cloned())
    }
    pub fn req(&self, name: &str) -> String {
        self.get(name).unwrap_or_else(|| {
            eprintln!("missing --{}", name);
            std::process::exit(2)
        })
    }
    pub fn num(&self, name: &str, default: u64) -> u64 {
        self.get(name).map(|v| v.parse().expect("number")).unwrap_or(default)
    }
    #[allow(dead_code)]
    pub fn has(&self, name: &str) -> bool {
        let key = format!("--{}", name);
        self.0.iter().any(|a| *a == key)
    }
}

/// Panics of the code under test are data: keep them off stderr but remember the last message.
pub static LAST_PANIC: Mutex<String> = Mutex::new(String::new());
pub fn quiet_panics() {
    std::panic::set_hook(Box::new(|info| {
        let msg = info.to_string();
        if let Ok(mut g) = LAST_PANIC.lock() {
            *g = msg;
        }
    }));
}
pub fn last_panic() -> String {
    LAST_PANIC.lock().map(|g| g.clone()).unwrap_or_default()
}

pub fn io_kind(e: &std::io::Error) -> String {
    format!("{:?}", e.kind())
}

pub fn summary(v: Value) {
    println!("SUMMARY {}", v);
}

#[allow(dead_code)]
pub fn jstr(v: &Value, k: &str) -> String {
    v[k].as_str().unwrap_or("").to_string()
}

#[allow(dead_code)]
pub fn null() -> Value {
    json!(null)
}
