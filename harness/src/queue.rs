//! Queue engine: binds spec/Queue.tla + spec/QueueProp.tla to cadence::QueuingMetricSink.
//!   queue-stress  (direction B) free-running producers / sampler / droppers on the real sink
//!   queue-replay  (direction A) TLC behaviours replayed step by step with a cooperative scheduler
//!                 that parks every thread at the cfg(cadence_verif) hook points
use crate::common::*;
use cadence::{MetricSink, QueuingMetricSink};
use rand::rngs::StdRng;
use rand::{Rng, SeedableRng};
use serde_json::json;
use std::cell::Cell;
use std::collections::HashMap;
use std::io;
use std::panic::{catch_unwind, AssertUnwindSafe};
use std::sync::atomic::{AtomicBool, AtomicU64, Ordering};
use std::sync::{Arc, Condvar, Mutex, OnceLock};
use std::time::{Duration, Instant};

// ------------------------------------------------------------------ thread ids and the trace
static NEXT_TID: AtomicU64 = AtomicU64::new(1);
thread_local! { static TID: Cell<u64> = const { Cell::new(0) }; }
pub fn tid() -> u64 {
    TID.with(|t| {
        if t.get() == 0 {
            t.set(NEXT_TID.fetch_add(1, Ordering::SeqCst));
        }
        t.get()
    })
}

pub static TRACE: OnceLock<Arc<Trace>> = OnceLock::new();
pub fn tr() -> &'static Arc<Trace> {
    TRACE.get().expect("trace not initialised")
}

// ------------------------------------------------------------------ cooperative scheduler (direction A)
/// Every hook point reports here. In scheduled mode the reporting thread parks until the driver
/// releases it, so between two points exactly one thread runs: the logged order is the real order.
#[derive(Default)]
pub struct SchedState {
    pub enabled: bool,
    /// tid -> (site it is parked at, a, b)
    pub parked: HashMap<u64, (String, u64, u64)>,
    /// tids allowed to leave their current park point
    pub go: HashMap<u64, bool>,
    /// sites reached, in order: (tid, site)
    pub log: Vec<(u64, String, u64, u64)>,
}
pub struct Sched {
    pub st: Mutex<SchedState>,
    pub cv: Condvar,
}
static SCHED: OnceLock<Arc<Sched>> = OnceLock::new();
pub fn sched() -> &'static Arc<Sched> {
    SCHED.get_or_init(|| Arc::new(Sched { st: Mutex::new(SchedState::default()), cv: Condvar::new() }))
}

/// A (possibly parking) point. Used by the cadence hooks and by the harness' own wrapped sink.
pub fn point(site: &str, a: u64, b: u64) {
    let me = tid();
    let s = sched();
    let mut g = s.st.lock().unwrap_or_else(|e| e.into_inner());
    g.log.push((me, site.to_string(), a, b));
    // the thread that drives the schedule never parks itself: code under test that reaches a hook point on the driver's own
    // thread (a change that runs the wrapped sink inside flush(), say) must not deadlock the harness
    if !g.enabled || me == DRIVER_TID.load(Ordering::SeqCst) {
        return;
    }
    g.parked.insert(me, (site.to_string(), a, b));
    s.cv.notify_all();
    loop {
        if g.go.remove(&me).is_some() {
            g.parked.remove(&me);
            s.cv.notify_all();
            return;
        }
        if !g.enabled {
            g.parked.remove(&me);
            return;
        }
        g = s.cv.wait(g).unwrap_or_else(|e| e.into_inner());
    }
}

static EXITED: AtomicU64 = AtomicU64::new(0);
static DRIVER_TID: AtomicU64 = AtomicU64::new(0);

/// number of threads of this process (hook-independent evidence that a background thread is gone)
fn tasks() -> usize {
    std::fs::read_dir("/proc/self/task").map(|d| d.count()).unwrap_or(usize::MAX)
}
/// "the background thread terminated": the exit point of `run()` was reported, or - should a change to the code have moved or
/// dropped that hook - the process is back to the number of threads it had before the sink was built
fn worker_gone(baseline: usize) -> bool {
    EXITED.load(Ordering::SeqCst) > 0 || wait_until(Duration::from_secs(2), || EXITED.load(Ordering::SeqCst) > 0 || tasks() <= baseline)
}

// ------------------------------------------------------------------ aligned races
/// Threads that reach the chosen hook point rendezvous there (spin barrier with a short timeout) and leave it at the same
/// instant, so the few instructions that follow the point in the code under test run truly concurrently: a check-then-act
/// or load-then-store window of nanoseconds is hit within a few hundred rounds instead of once in a million emits.
static ALIGN_SITE: AtomicU64 = AtomicU64::new(0); // 0 none, 1 q.submit.begin, 2 q.submit.sent
static ALIGN_N: AtomicU64 = AtomicU64::new(2);
static ALIGN_COUNT: AtomicU64 = AtomicU64::new(0);
static ALIGN_GEN: AtomicU64 = AtomicU64::new(0);
fn set_align(site: u64, n: u64) {
    ALIGN_N.store(n, Ordering::SeqCst);
    ALIGN_COUNT.store(0, Ordering::SeqCst);
    ALIGN_SITE.store(site, Ordering::SeqCst);
}
/// rendezvous of harness threads themselves (mode 4): used right before a call whose first instructions race
fn align_now() {
    if ALIGN_SITE.load(Ordering::Relaxed) == 4 {
        align_wait("harness.now");
    }
}
fn align_wait(site: &str) {
    let want = ALIGN_SITE.load(Ordering::Relaxed);
    if want == 3 {
        // stall mode: the producer rests between the successful try_send and the increment of `submitted`, long enough
        // for the worker to deliver the metric and count it as drained (drained > submitted for a moment)
        if site == "q.submit.sent" {
            std::thread::sleep(Duration::from_millis(2));
        }
        return;
    }
    if want == 0 || (want == 1) != (site == "q.submit.begin") || (want == 2) != (site == "q.submit.sent") || (want == 4) != (site == "harness.now") {
        return;
    }
    let g = ALIGN_GEN.load(Ordering::SeqCst);
    let c = ALIGN_COUNT.fetch_add(1, Ordering::SeqCst) + 1;
    if c >= ALIGN_N.load(Ordering::Relaxed) {
        // the last to arrive fixes a common release instant a little in the future; everybody (this thread too) spins on
        // the clock until then, so the skew between the threads is one clock read, not one cache-line transfer
        ALIGN_COUNT.store(0, Ordering::SeqCst);
        ALIGN_RELEASE.store(now_ns() + 20_000, Ordering::SeqCst);
        ALIGN_GEN.fetch_add(1, Ordering::SeqCst);
    } else {
        let t0 = Instant::now();
        let mut spins = 0u32;
        while ALIGN_GEN.load(Ordering::SeqCst) == g {
            std::hint::spin_loop();
            spins += 1;
            if spins % 256 == 0 {
                // the partner may have been placed on this very CPU
                std::thread::yield_now();
            }
            if spins % 64 == 0 && t0.elapsed() > Duration::from_millis(20) {
                // nobody came: leave alone (the counter is only a heuristic, a lost decrement costs one misaligned round)
                let _ = ALIGN_COUNT.fetch_update(Ordering::SeqCst, Ordering::SeqCst, |v| v.checked_sub(1));
                return;
            }
        }
    }
    let rel = ALIGN_RELEASE.load(Ordering::SeqCst);
    while now_ns() < rel {
        std::hint::spin_loop();
    }
}
static ALIGN_RELEASE: AtomicU64 = AtomicU64::new(0);
extern "C" {
    fn sched_getaffinity(pid: i32, cpusetsize: usize, mask: *mut u64) -> i32;
    fn sched_setaffinity(pid: i32, cpusetsize: usize, mask: *const u64) -> i32;
}
/// Pin the calling thread to the `idx`-th CPU this process may use, so that racing threads really run in parallel
/// (freshly spawned threads are often placed on one CPU and then take turns). Returns false when there is only one CPU.
pub fn pin_to(idx: u64) -> bool {
    static ALLOWED: OnceLock<Vec<usize>> = OnceLock::new();
    let allowed = ALLOWED.get_or_init(|| {
        let mut mask = [0u64; 16];
        // SAFETY: plain syscall wrappers writing at most `cpusetsize` bytes into `mask`
        let rc = unsafe { sched_getaffinity(0, std::mem::size_of_val(&mask), mask.as_mut_ptr()) };
        let mut v = vec![];
        if rc == 0 {
            for (w, bits) in mask.iter().enumerate() {
                for b in 0..64 {
                    if bits >> b & 1 == 1 {
                        v.push(w * 64 + b);
                    }
                }
            }
        }
        v
    });
    if allowed.len() < 2 {
        return false;
    }
    let cpu = allowed[(idx as usize) % allowed.len()];
    let mut mask = [0u64; 16];
    mask[cpu / 64] |= 1 << (cpu % 64);
    // SAFETY: as above; pid 0 = the calling thread
    unsafe { sched_setaffinity(0, std::mem::size_of_val(&mask), mask.as_ptr()) == 0 }
}
fn now_ns() -> u64 {
    static BASE: OnceLock<Instant> = OnceLock::new();
    BASE.get_or_init(Instant::now).elapsed().as_nanos() as u64
}

fn install_tracer(log_hooks: bool) {
    cadence::verif::install(Some(Arc::new(move |site: &'static str, _obj: usize, a: u64, b: u64| {
        if !site.starts_with("q.") {
            return;
        }
        if site == "q.exit" {
            EXITED.fetch_add(1, Ordering::SeqCst);
        }
        if log_hooks {
            tr().ev(json!({"ev":"hook","site":site,"tid":tid(),"a":a,"b":b}));
        }
        point(site, a, b);
        align_wait(site);
    })));
}

/// no log, no global lock: for the high-contention phases
fn install_light() {
    cadence::verif::install(Some(Arc::new(move |site: &'static str, _obj: usize, _a: u64, _b: u64| {
        if site == "q.exit" {
            EXITED.fetch_add(1, Ordering::SeqCst);
        }
        align_wait(site);
    })));
}

/// The trace identifies a metric by its text; the empty metric gets a label of its own (the trace spec uses "" for "none").
/// `len` is always the length of the real text.
fn lbl(m: &str) -> &str {
    if m.is_empty() {
        "<empty>"
    } else {
        m
    }
}

// ------------------------------------------------------------------ the wrapped sink
#[derive(Clone, Copy, PartialEq, Debug)]
enum Out {
    Ok,
    Err,
    Panic,
}
struct Shared {
    gate_open: Mutex<bool>,
    gate_cv: Condvar,
    slow_us: AtomicU64,
    /// outcome for a metric (scripted by the scenario)
    outcome: Mutex<Box<dyn Fn(&str) -> Out + Send>>,
    entered: AtomicU64,
    left: AtomicU64,
    n_err: AtomicU64,
    n_panic: AtomicU64,
    n_eh: Arc<AtomicU64>,
    dropped: AtomicBool,
}
struct GateSink(Arc<Shared>);
impl MetricSink for GateSink {
    fn emit(&self, m: &str) -> io::Result<usize> {
        let s = &self.0;
        let nth = s.entered.fetch_add(1, Ordering::SeqCst);
        if nth >= 3000 {
            // a background thread that calls the wrapped sink without end (for example retrying one metric for ever): the
            // first repetitions are in the trace and already judged; what follows is neither logged nor allowed to spin hot
            if nth == 3000 {
                tr().ev(json!({"ev":"note","what":"the wrapped sink was entered more than 3000 times in one scenario: further entries are not logged"}));
            }
            std::thread::sleep(Duration::from_millis(2));
            return Err(io::Error::new(io::ErrorKind::Other, "harness: entry limit"));
        }
        tr().ev(json!({"ev":"wenter","m":lbl(m),"tid":tid()}));
        point("w.enter", 0, 0);
        {
            let mut g = s.gate_open.lock().unwrap_or_else(|e| e.into_inner());
            while !*g {
                g = s.gate_cv.wait(g).unwrap_or_else(|e| e.into_inner());
            }
        }
        let us = s.slow_us.load(Ordering::Relaxed);
        if us > 0 {
            std::thread::sleep(Duration::from_micros(us));
        }
        let o = (s.outcome.lock().unwrap_or_else(|e| e.into_inner()))(m);
        match o {
            Out::Ok => {
                tr().ev(json!({"ev":"wleave","m":lbl(m),"o":"ok","msg":""}));
                s.left.fetch_add(1, Ordering::SeqCst);
                Ok(m.len())
            }
            Out::Err => {
                let msg = format!("wrapped-err-{}", m);
                tr().ev(json!({"ev":"wleave","m":lbl(m),"o":"err","msg":msg}));
                s.n_err.fetch_add(1, Ordering::SeqCst);
                s.left.fetch_add(1, Ordering::SeqCst);
                // every io::ErrorKind in turn (C16: "returns an error", whatever its kind)
                let h: usize = m.bytes().fold(7usize, |a, b| a.wrapping_mul(31).wrapping_add(b as usize));
                Err(io::Error::new(crate::client::ALL_KINDS[h % crate::client::ALL_KINDS.len()].1, msg))
            }
            Out::Panic => {
                tr().ev(json!({"ev":"wleave","m":lbl(m),"o":"panic","msg":""}));
                s.n_panic.fetch_add(1, Ordering::SeqCst);
                s.left.fetch_add(1, Ordering::SeqCst);
                panic!("wrapped sink panics on {}", m);
            }
        }
    }
    fn flush(&self) -> io::Result<()> {
        self.other("flush");
        Ok(())
    }
    fn stats(&self) -> cadence::SinkStats {
        self.other("stats");
        cadence::SinkStats::default()
    }
}
impl GateSink {
    /// flush / stats of the wrapped sink were entered on this thread
    fn other(&self, what: &str) {
        tr().ev(json!({"ev":"wother","what":what,"tid":tid()}));
    }
}
impl Drop for GateSink {
    fn drop(&mut self) {
        tr().ev(json!({"ev":"wdropped","tid":tid()}));
        self.0.dropped.store(true, Ordering::SeqCst);
    }
}
fn set_gate(s: &Arc<Shared>, open: bool) {
    *s.gate_open.lock().unwrap() = open;
    s.gate_cv.notify_all();
}
fn new_shared(open: bool) -> Arc<Shared> {
    Arc::new(Shared {
        gate_open: Mutex::new(open),
        gate_cv: Condvar::new(),
        slow_us: AtomicU64::new(0),
        outcome: Mutex::new(Box::new(|_| Out::Ok)),
        entered: AtomicU64::new(0),
        left: AtomicU64::new(0),
        n_err: AtomicU64::new(0),
        n_panic: AtomicU64::new(0),
        n_eh: Arc::new(AtomicU64::new(0)),
        dropped: AtomicBool::new(false),
    })
}
fn build_sink(sh: &Arc<Shared>, cap: Option<usize>, eh: bool) -> QueuingMetricSink {
    // without a handler the two convenience constructors are used as well (every second sink)
    static FLIP: AtomicU64 = AtomicU64::new(0);
    if !eh && FLIP.fetch_add(1, Ordering::Relaxed) % 2 == 0 {
        return match cap {
            Some(c) => QueuingMetricSink::with_capacity(GateSink(sh.clone()), c),
            None => QueuingMetricSink::from(GateSink(sh.clone())),
        };
    }
    // the two builder options are given in either order (every second builder: handler first)
    let handler_first = FLIP.fetch_add(1, Ordering::Relaxed) % 2 == 1;
    // the three ways to obtain a builder, in turn
    let mut b = match FLIP.fetch_add(1, Ordering::Relaxed) % 3 {
        0 => QueuingMetricSink::builder(),
        1 => cadence::QueuingMetricSinkBuilder::new(),
        _ => cadence::QueuingMetricSinkBuilder::default(),
    };
    for step in 0..2 {
        let do_cap = (step == 0) != handler_first;
        if do_cap {
            if let Some(c) = cap {
                b = b.with_capacity(c);
            }
        } else if eh {
            let n_eh = sh.n_eh.clone();
            b = b.with_error_handler(move |e: io::Error| {
                tr().ev(json!({"ev":"eh","msg":e.to_string(),"tid":tid()}));
                n_eh.fetch_add(1, Ordering::SeqCst);
                point("w.eh", 0, 0);
            });
        }
    }
    b.build(GateSink(sh.clone()))
}

fn cap_json(cap: Option<usize>) -> u64 {
    cap.map(|c| c as u64).unwrap_or(1_000_000)
}

/// long waits that expired so far: after three of them the tree under test is known to be broken (each has already produced
/// its evidence) and the remaining long waits are cut to one second, so that a check of a broken tree still ends in minutes
static EXPIRED_LONG_WAITS: AtomicU64 = AtomicU64::new(0);
/// six long waits have expired: the tree under test is broken beyond doubt and every expiry has left its evidence in the
/// trace; the drivers skip what is left of their programme so that the check still ends in a few minutes
fn broken() -> bool {
    EXPIRED_LONG_WAITS.load(Ordering::Relaxed) >= 6
}
fn wait_until(limit: Duration, mut f: impl FnMut() -> bool) -> bool {
    let long = limit >= Duration::from_secs(2);
    let limit = if long && EXPIRED_LONG_WAITS.load(Ordering::Relaxed) >= 3 { Duration::from_secs(1) } else { limit };
    let t0 = Instant::now();
    loop {
        if f() {
            return true;
        }
        if t0.elapsed() > limit {
            if long {
                EXPIRED_LONG_WAITS.fetch_add(1, Ordering::Relaxed);
            }
            return false;
        }
        std::thread::sleep(Duration::from_micros(200));
    }
}

fn hash_outcome(seed: u64, m: &str, perr: u32, ppanic: u32) -> Out {
    // deterministic outcome per metric string
    let mut h = seed ^ 0x9e37_79b9_7f4a_7c15;
    for b in m.bytes() {
        h = (h ^ b as u64).wrapping_mul(0x1000_0000_01b3);
    }
    let r = ((h >> 17) % 1000) as u32;
    if r < ppanic {
        Out::Panic
    } else if r < ppanic + perr {
        Out::Err
    } else {
        Out::Ok
    }
}

fn do_emit(sink: &QueuingMetricSink, h: u64, m: &str) -> Option<bool> {
    tr().ev(json!({"ev":"ecall","h":h,"m":lbl(m),"tid":tid()}));
    align_now();
    let r = catch_unwind(AssertUnwindSafe(|| sink.emit(m)));
    match r {
        Ok(Ok(n)) => {
            tr().ev(json!({"ev":"eret","m":lbl(m),"ok":true,"n":n,"msg":"","len":m.len()}));
            Some(true)
        }
        Ok(Err(e)) => {
            tr().ev(json!({"ev":"eret","m":lbl(m),"ok":false,"n":0,"msg":e.to_string(),"len":m.len()}));
            Some(false)
        }
        Err(_) => {
            tr().ev(json!({"ev":"epanic","m":lbl(m)}));
            None
        }
    }
}

/// drop a handle in its own thread so that a blocking drop is data, not a hung harness
fn do_drop(sink: QueuingMetricSink, h: u64) -> bool {
    let done = Arc::new(AtomicBool::new(false));
    let d2 = done.clone();
    let t = std::thread::spawn(move || {
        tr().ev(json!({"ev":"dropbegin","h":h,"tid":tid()}));
        let r = catch_unwind(AssertUnwindSafe(move || drop(sink)));
        tr().ev(json!({"ev":"dropend","h":h,"panicked":r.is_err()}));
        d2.store(true, Ordering::SeqCst);
    });
    if wait_until(Duration::from_secs(10), || done.load(Ordering::SeqCst)) {
        let _ = t.join();
        true
    } else {
        tr().ev(json!({"ev":"drophang","h":h}));
        false
    }
}

/// the handle is dropped because the thread that owns it unwinds from a panic (C09: "dropping a handle", however it happens)
fn do_drop_unwinding(sink: QueuingMetricSink, h: u64) -> bool {
    let done = Arc::new(AtomicBool::new(false));
    let d2 = done.clone();
    let t = std::thread::spawn(move || {
        tr().ev(json!({"ev":"dropbegin","h":h,"tid":tid(),"unwinding":true}));
        let r = catch_unwind(AssertUnwindSafe(move || {
            let _owned = sink;
            panic!("the owner of the handle panics");
        }));
        let _ = r;
        tr().ev(json!({"ev":"dropend","h":h,"panicked":false}));
        d2.store(true, Ordering::SeqCst);
    });
    if wait_until(Duration::from_secs(10), || done.load(Ordering::SeqCst)) {
        let _ = t.join();
        true
    } else {
        tr().ev(json!({"ev":"drophang","h":h}));
        false
    }
}

/// a counter read that may panic in a broken tree: the panic is recorded as data, the caller sees `u64::MAX`
fn stat(f: impl FnOnce() -> u64) -> u64 {
    match catch_unwind(AssertUnwindSafe(f)) {
        Ok(v) => v,
        Err(_) => {
            tr().ev(json!({"ev":"sbegin"}));
            tr().ev(json!({"ev":"spanic","msg":last_panic()}));
            u64::MAX
        }
    }
}

fn sample(sink: &QueuingMetricSink, ev: &str) {
    tr().ev(json!({"ev":"sbegin"}));
    let r = catch_unwind(AssertUnwindSafe(|| (sink.queued(), sink.submitted(), sink.drained(), sink.panics())));
    let (q, s, d, p) = match r {
        Ok(x) => x,
        Err(_) => {
            // reading the counters panicked (C20; for queued() also C15: "never wraps around")
            tr().ev(json!({"ev":"spanic","msg":last_panic()}));
            return;
        }
    };
    // a wrapped-around u64 does not fit TLC's integers: clamp, the rule "q <= s" still fires
    let c = |x: u64| x.min(2_000_000_000);
    tr().ev(json!({"ev":ev,"s":c(s),"d":c(d),"q":c(q),"p":c(p)}));
}

/// Direction B: free-running stress scenarios.
pub fn stress(a: &Args) {
    let seed = a.num("seed", 1);
    let runs = a.num("runs", 10);
    let long_stall = a.num("stall-ms", 1300);
    let _ = TRACE.set(Arc::new(Trace::create(&a.req("out"))));
    install_tracer(false);
    let mut rng = StdRng::seed_from_u64(seed ^ 0x51ee_0002);
    let mut total_emits = 0u64;
    let mut sample_cfg = json!(null);
    let mut blocked_drop_us: Vec<u64> = vec![];
    let mut stop_all = false;
    for run in 0..runs {
        if broken() {
            break;
        }
        let cap: Option<usize> = [None, Some(0), Some(1), Some(2), Some(3), Some(8), Some(1), Some(2), Some(5), Some(6), Some(7)][rng.random_range(0..11)];
        let eh = rng.random_bool(0.6);
        let nprod = rng.random_range(1..=4u64);
        let per = rng.random_range(3..=30u64);
        let (perr, ppanic) = [(0, 0), (200, 0), (0, 150), (200, 150), (500, 300)][rng.random_range(0..5)];
        let gate_closed_first = rng.random_bool(0.3);
        let slow = [0u64, 0, 50, 300][rng.random_range(0..4)];
        let fill_before_last_drop = rng.random_bool(0.5);
        let early_drop_original = rng.random_bool(0.5);
        let with_sampler = rng.random_bool(0.7);
        // every fifth run builds a long backlog behind a blocked wrapped sink (tens to hundreds of accepted metrics,
        // some of which panic or fail) before the worker sees any of it
        let backlog = run % 5 == 4;
        let (cap, nprod, per, gate_closed_first, slow) = if backlog {
            ([None, Some(64), Some(200), None][((run / 5) % 4) as usize], 1 + (run / 5) % 2, 40 + 17 * ((run / 5) % 6), true, 0)
        } else {
            (cap, nprod, per, gate_closed_first, slow)
        };
        let (perr, ppanic) = if backlog { (100, 60) } else { (perr, ppanic) };
        // a few runs keep the wrapped sink blocked for more than a second after the last drop
        let stall_ms: u64 = if run % 17 == 3 || run % 17 == 11 { long_stall } else { 0 };
        let fill_before_last_drop = fill_before_last_drop || stall_ms > 0;
        let cfg = json!({"run":run,"cap":cap_json(cap),"eh":eh,"producers":nprod,"per":per,"perr":perr,"ppanic":ppanic,
            "gate_closed_first":gate_closed_first,"slow_us":slow,"fill":fill_before_last_drop,"stall_ms":stall_ms,"early_drop":early_drop_original,"sampler":with_sampler});
        if run == 0 {
            sample_cfg = cfg.clone();
        }
        tr().ev(json!({"ev":"reset","cap":cap_json(cap),"eh":eh,"run":run,"cfg":cfg}));
        EXITED.store(0, Ordering::SeqCst);
        let base_tasks = tasks();
        let sh = new_shared(!gate_closed_first);
        sh.slow_us.store(slow, Ordering::Relaxed);
        let rs = seed.wrapping_mul(1000).wrapping_add(run);
        *sh.outcome.lock().unwrap() = Box::new(move |m| hash_outcome(rs, m, perr, ppanic));
        let original = build_sink(&sh, cap, eh);
        let okcount = Arc::new(AtomicU64::new(0));
        let mut next_h = 2u64;
        // producers, each with its own clone
        let mut joins = vec![];
        for p in 0..nprod {
            let h = next_h;
            next_h += 1;
            tr().ev(json!({"ev":"clone","h":1,"h2":h}));
            let sink = original.clone();
            let okc = okcount.clone();
            let hostile = run % 4 == 2;
            let mut prng = StdRng::seed_from_u64(rs ^ (p + 1) * 7919);
            // clones made by producers get ids from a disjoint range
            let mut my_next = 100 + p * 100;
            joins.push(std::thread::spawn(move || {
                let mut sink = sink;
                let mut h = h;
                for i in 0..per {
                    // the queuing sink is a MetricSink for ANY string: every fourth run one producer also emits the
                    // empty string, delimiters and a newline, multi-byte text and a very long line
                    let m = match (hostile && p == 0, i) {
                        (true, 1) => String::new(),
                        (true, 2) => "x\ny|#:@,".to_string(),
                        (true, 3) => "\u{e9}\u{4e16}\u{1f600}".repeat(20),
                        (true, 4) => format!("L{}", "l".repeat(3000)),
                        _ => format!("p{}.{}", p, i),
                    };
                    if let Some(true) = do_emit(&sink, h, &m) {
                        okc.fetch_add(1, Ordering::SeqCst);
                    }
                    if prng.random_range(0..8) == 0 {
                        // clone the handle, drop the old one, continue on the clone
                        my_next += 1;
                        tr().ev(json!({"ev":"clone","h":h,"h2":my_next}));
                        let c = sink.clone();
                        do_drop(std::mem::replace(&mut sink, c), h);
                        h = my_next;
                    }
                    if prng.random_range(0..8) == 0 {
                        // flush() / stats() of the queuing sink delegate to the wrapped sink on this thread (logged as `wother`);
                        // they must not run queued metrics or the error handler here
                        tr().ev(json!({"ev":"fcall","tid":tid()}));
                        if catch_unwind(AssertUnwindSafe(|| (sink.flush().is_ok(), sink.stats()))).is_err() {
                            tr().ev(json!({"ev":"epanic","m":"flush/stats"}));
                        }
                    }
                    if prng.random_range(0..4) == 0 {
                        std::thread::yield_now();
                    }
                }
                (sink, h)
            }));
        }
        total_emits += nprod * per;
        let stop_sampler = Arc::new(AtomicBool::new(false));
        let sampler = if with_sampler {
            let h = next_h;
            tr().ev(json!({"ev":"clone","h":1,"h2":h}));
            let sink = original.clone();
            let stop = stop_sampler.clone();
            Some(std::thread::spawn(move || {
                let mut n = 0;
                while !stop.load(Ordering::SeqCst) && n < 400 {
                    sample(&sink, "sample");
                    n += 1;
                    std::thread::yield_now();
                }
                (sink, h)
            }))
        } else {
            None
        };
        let mut live: Vec<(QueuingMetricSink, u64)> = vec![];
        if early_drop_original {
            do_drop(original, 1);
        } else {
            live.push((original, 1));
        }
        // producers never block on the wrapped sink: with the gate closed they must all return
        let mut hung = false;
        let mut stuck = vec![];
        for j in joins {
            // (same budget as every long wait: after three expired ones the tree is known to be broken)
            wait_until(Duration::from_secs(20), || j.is_finished());
            if j.is_finished() {
                if let Ok(x) = j.join() {
                    live.push(x);
                }
            } else {
                tr().ev(json!({"ev":"ehang","m":"?"}));
                hung = true;
                stuck.push(j);
            }
        }
        stop_sampler.store(true, Ordering::SeqCst);
        if let Some(s) = sampler {
            if let Ok(x) = s.join() {
                live.push(x);
            }
        }
        set_gate(&sh, true);
        if hung || live.is_empty() {
            tr().ev(json!({"ev":"abandon"}));
            // the producers that were stuck must not write into the next scenario's trace: once the gate is open they finish;
            // if they still do not, nothing that follows could be trusted and the driver stops here
            let mut clean = wait_until(Duration::from_secs(10), || stuck.iter().all(|j| j.is_finished()));
            if clean {
                // ... and neither must its background thread: every handle is dropped and the wrapped sink released first
                for j in stuck {
                    if let Ok(x) = j.join() {
                        live.push(x);
                    }
                }
                drop(live);
                clean = wait_until(Duration::from_secs(10), || sh.dropped.load(Ordering::SeqCst));
            }
            if !clean {
                tr().ev(json!({"ev":"reset","cap":cap_json(None),"eh":false,"run":9999,"stopped_after_stuck_threads":true}));
                stop_all = true;
                break;
            }
            continue;
        }
        // bounded liveness: everything accepted is delivered while handles are alive
        let want = okcount.load(Ordering::SeqCst);
        wait_until(Duration::from_secs(10), || sh.left.load(Ordering::SeqCst) >= want && stat(|| live[0].0.drained()) >= want);
        // let the worker finish its bookkeeping after the last task (handler call, panic count):
        // wait on the facts themselves, never on a fixed sleep
        wait_until(Duration::from_secs(10), || {
            stat(|| live[0].0.panics()) >= sh.n_panic.load(Ordering::SeqCst)
                && (!eh || sh.n_eh.load(Ordering::SeqCst) >= sh.n_err.load(Ordering::SeqCst))
        });
        sample(&live[0].0, "quiesce");
        // optionally fill the queue completely before the last drop (occupancy = capacity)
        if fill_before_last_drop {
            set_gate(&sh, false);
            let (s0, h0) = (&live[0].0, live[0].1);
            let lim = cap.map(|c| c + 5).unwrap_or(5);
            // C10 "returns promptly even while the wrapped sink is blocked indefinitely": the quickest refused and the quickest
            // accepted emit of this phase (a minimum over several calls is insensitive to scheduling noise; an emit that waits
            // for room or for the worker with a timeout makes EVERY refused call slow)
            let (mut min_ref, mut n_ref, mut min_ok, mut n_ok) = (u64::MAX, 0u64, u64::MAX, 0u64);
            let entered_before = sh.entered.load(Ordering::SeqCst);
            for i in 0..lim {
                if i == 1 {
                    // let the worker pick up the first metric and block inside the wrapped sink: what follows then fills the
                    // queue completely (occupancy = capacity at the last drop, whatever the timing)
                    wait_until(Duration::from_secs(2), || sh.entered.load(Ordering::SeqCst) > entered_before);
                }
                let m = format!("f{}", i);
                let t0 = Instant::now();
                let r = do_emit(s0, h0, &m);
                let us = t0.elapsed().as_micros() as u64;
                match r {
                    Some(false) => {
                        min_ref = min_ref.min(us);
                        n_ref += 1;
                    }
                    Some(true) => {
                        min_ok = min_ok.min(us);
                        n_ok += 1;
                    }
                    None => {}
                }
            }
            let c = |x: u64| x.min(2_000_000_000);
            tr().ev(json!({"ev":"latency","nref":n_ref,"minref":c(min_ref),"nok":n_ok,"minok":c(min_ok)}));
        }
        // drop every remaining handle, in random order
        while !live.is_empty() {
            let i = rng.random_range(0..live.len());
            let (s, h) = live.swap_remove(i);
            let last = live.is_empty();
            let t0 = Instant::now();
            if run % 3 == 1 {
                do_drop_unwinding(s, h);
            } else {
                do_drop(s, h);
            }
            if last && fill_before_last_drop && cap.is_some() {
                // the stopping drop, made while the wrapped sink is held blocked and the queue is full
                blocked_drop_us.push(t0.elapsed().as_micros() as u64);
            }
        }
        // a wrapped sink that stays blocked for a while AFTER the last drop (C09: whatever the wrapped sink does,
        // for every occupancy): the stop marker must still arrive once there is room
        if fill_before_last_drop && stall_ms > 0 {
            std::thread::sleep(Duration::from_millis(stall_ms));
        }
        set_gate(&sh, true);
        let released = wait_until(Duration::from_secs(10), || sh.dropped.load(Ordering::SeqCst));
        let exited = worker_gone(base_tasks);
        tr().ev(json!({"ev":"end","released":released,"exited":exited}));
    }
    if stop_all {
        cadence::verif::install(None);
        tr().finish();
        summary(json!({"engine":"queue-stress","seed":seed,"runs":runs,"emits":total_emits,"events":tr().count(),"sample":sample_cfg,"stopped_early":true}));
        return;
    }
    // C09 "dropping a handle never blocks": the quickest of all stopping drops made while the wrapped sink was held blocked
    // (one per scenario, judged together in a scenario of their own: a minimum is insensitive to scheduling noise)
    tr().ev(json!({"ev":"reset","cap":cap_json(None),"eh":false,"run":1999,"latency_summary":true}));
    tr().ev(json!({"ev":"droplat","n":blocked_drop_us.len(),"min":blocked_drop_us.iter().copied().min().unwrap_or(0).min(2_000_000_000)}));
    // ---- aligned capacity races (C10/C15/C08): the worker is held inside the wrapped sink, the queue has exactly one free
    // slot, and 2-3 producers on clones leave the hook point at the top of submit at the same instant
    let align_rounds = a.num("align", 120);
    for r in 0..align_rounds {
        if broken() {
            break;
        }
        let cap = 1 + (r % 3) as usize;
        let nthr = 2 + (r % 2);
        tr().ev(json!({"ev":"reset","cap":cap as u64,"eh":false,"run":2000 + r,"aligned":true}));
        EXITED.store(0, Ordering::SeqCst);
        let base_tasks = tasks();
        let sh = new_shared(false);
        let original = build_sink(&sh, Some(cap), false);
        do_emit(&original, 1, "a.held");
        wait_until(Duration::from_secs(5), || sh.entered.load(Ordering::SeqCst) >= 1);
        for i in 1..cap {
            do_emit(&original, 1, &format!("a.fill{}", i));
        }
        set_align(1, nthr);
        let start = Arc::new(std::sync::Barrier::new(nthr as usize));
        let mut js = vec![];
        for p in 0..nthr {
            let h = 2 + p;
            tr().ev(json!({"ev":"clone","h":1,"h2":h}));
            let s = original.clone();
            let start = start.clone();
            js.push(std::thread::spawn(move || {
                pin_to(1 + p + 3 * (r % 4));
                start.wait();
                do_emit(&s, h, &format!("a.race{}", p));
                (s, h)
            }));
        }
        let mut live: Vec<(QueuingMetricSink, u64)> = vec![(original, 1)];
        for j in js {
            if let Ok(x) = j.join() {
                live.push(x);
            }
        }
        set_align(0, 2);
        total_emits += cap as u64 + nthr;
        sample(&live[0].0, "sample");
        set_gate(&sh, true);
        wait_until(Duration::from_secs(10), || sh.left.load(Ordering::SeqCst) >= stat(|| live[0].0.submitted()).min(64));
        wait_until(Duration::from_secs(10), || stat(|| live[0].0.drained()) >= stat(|| live[0].0.submitted()));
        sample(&live[0].0, "quiesce");
        while let Some((s, h)) = live.pop() {
            do_drop(s, h);
        }
        let released = wait_until(Duration::from_secs(10), || sh.dropped.load(Ordering::SeqCst));
        tr().ev(json!({"ev":"end","released":released,"exited":worker_gone(base_tasks)}));
    }
    // ---- first emits on a fresh sink (C08): 3 pinned producers, each on its own clone of a sink nobody has used yet, enter their
    // very first emit at the same instant (whatever the sink sets up lazily is set up under contention), then emit a few more
    for r in 0..a.num("fresh-rounds", 40) {
        if broken() {
            break;
        }
        let cap: Option<usize> = if r % 2 == 0 { None } else { Some(16) };
        tr().ev(json!({"ev":"reset","cap":cap_json(cap),"eh":false,"run":2500 + r,"fresh":true}));
        EXITED.store(0, Ordering::SeqCst);
        let base_tasks = tasks();
        let sh = new_shared(true);
        let original = build_sink(&sh, cap, false);
        let nthr = 3u64;
        set_align(4, nthr);
        let start = Arc::new(std::sync::Barrier::new(nthr as usize));
        let okc = Arc::new(AtomicU64::new(0));
        let mut js = vec![];
        for p in 0..nthr {
            let h = 2 + p;
            tr().ev(json!({"ev":"clone","h":1,"h2":h}));
            let s = original.clone();
            let (start, okc) = (start.clone(), okc.clone());
            js.push(std::thread::spawn(move || {
                pin_to(1 + p + 3 * (r % 4));
                start.wait();
                for i in 0..5 {
                    if i == 1 {
                        // only the first emit is aligned
                        ALIGN_SITE.store(0, Ordering::SeqCst);
                    }
                    if let Some(true) = do_emit(&s, h, &format!("n{}.{}", p, i)) {
                        okc.fetch_add(1, Ordering::SeqCst);
                    }
                }
                (s, h)
            }));
        }
        let mut live: Vec<(QueuingMetricSink, u64)> = vec![(original, 1)];
        for j in js {
            if let Ok(x) = j.join() {
                live.push(x);
            }
        }
        set_align(0, 2);
        total_emits += 5 * nthr;
        let want = okc.load(Ordering::SeqCst);
        wait_until(Duration::from_secs(10), || sh.left.load(Ordering::SeqCst) >= want && stat(|| live[0].0.drained()) >= want);
        sample(&live[0].0, "quiesce");
        while let Some((s, h)) = live.pop() {
            do_drop(s, h);
        }
        let released = wait_until(Duration::from_secs(10), || sh.dropped.load(Ordering::SeqCst));
        // every background thread this sink ever started must be gone (not only the one that reported its exit)
        let gone = wait_until(Duration::from_secs(2), || tasks() <= base_tasks);
        tr().ev(json!({"ev":"end","released":released,"exited":worker_gone(base_tasks) && (gone || tasks() == usize::MAX)}));
    }
    // ---- stalled increment (C15 "never wraps around", C20): a producer rests between try_send and incr_submitted while the
    // worker delivers the metric, so drained exceeds submitted for two milliseconds; a sampler reads the counters meanwhile
    for r in 0..a.num("stall-rounds", 6) {
        if broken() {
            break;
        }
        tr().ev(json!({"ev":"reset","cap":cap_json(None),"eh":false,"run":3000 + r,"stalled":true}));
        EXITED.store(0, Ordering::SeqCst);
        let base_tasks = tasks();
        let sh = new_shared(true);
        let original = build_sink(&sh, None, false);
        set_align(3, 1);
        tr().ev(json!({"ev":"clone","h":1,"h2":2}));
        let s2 = original.clone();
        let j = std::thread::spawn(move || {
            do_emit(&s2, 2, "s.stalled");
            (s2, 2u64)
        });
        let t0 = Instant::now();
        while !j.is_finished() && t0.elapsed() < Duration::from_secs(5) {
            sample(&original, "sample");
            std::thread::sleep(Duration::from_micros(150));
        }
        set_align(0, 2);
        let mut live: Vec<(QueuingMetricSink, u64)> = vec![(original, 1)];
        if let Ok(x) = j.join() {
            live.push(x);
        }
        total_emits += 1;
        wait_until(Duration::from_secs(10), || stat(|| live[0].0.drained()) >= 1 && sh.left.load(Ordering::SeqCst) >= 1);
        sample(&live[0].0, "quiesce");
        while let Some((s, h)) = live.pop() {
            do_drop(s, h);
        }
        let released = wait_until(Duration::from_secs(10), || sh.dropped.load(Ordering::SeqCst));
        tr().ev(json!({"ev":"end","released":released,"exited":worker_gone(base_tasks)}));
    }
    // ---- high-contention phases (C15/C08 at quiescence): 8 producers x 20 000 emits on clones of one sink,
    // nothing logged per event: each producer counts its Ok results, the wrapped sink counts what it is handed.
    // The third phase aligns pairs of producers just before the submitted counter is incremented.
    install_light();
    let bulk_runs = a.num("bulk", 3);
    for b in 0..bulk_runs {
        if broken() {
            break;
        }
        let cap: Option<usize> = if b % 2 == 0 { None } else { Some(64) };
        let aligned = b % 3 == 2;
        let (nprod, per) = if aligned { (4u64, 4_000u64) } else { (8u64, 20_000u64) };
        if aligned {
            set_align(2, 2);
        }
        tr().ev(json!({"ev":"reset","cap":cap_json(cap),"eh":false,"run":1000 + b,"bulk":true}));
        struct CountSink(Arc<AtomicU64>);
        impl MetricSink for CountSink {
            fn emit(&self, _m: &str) -> io::Result<usize> {
                self.0.fetch_add(1, Ordering::SeqCst);
                Ok(0)
            }
        }
        let handed = Arc::new(AtomicU64::new(0));
        let sink = match cap {
            Some(c) => QueuingMetricSink::with_capacity(CountSink(handed.clone()), c),
            None => QueuingMetricSink::from(CountSink(handed.clone())),
        };
        let mut js = vec![];
        for p in 0..nprod {
            tr().ev(json!({"ev":"clone","h":1,"h2":p + 2}));
            let s = sink.clone();
            js.push(std::thread::spawn(move || {
                pin_to(1 + p);
                let mut ok = 0u64;
                for i in 0..per {
                    if s.emit(if i % 2 == 0 { "b:1|c" } else { "bulk.metric:2|g" }).is_ok() {
                        ok += 1;
                    }
                }
                (s, ok)
            }));
        }
        let mut okn = 0u64;
        let mut keep = vec![];
        for j in js {
            if let Ok((s, ok)) = j.join() {
                okn += ok;
                keep.push(s);
            }
        }
        set_align(0, 2);
        total_emits += nprod * per;
        wait_until(Duration::from_secs(10), || handed.load(Ordering::SeqCst) >= okn && stat(|| sink.drained()) >= okn);
        tr().ev(json!({"ev":"bulk","okn":okn,"deln":handed.load(Ordering::SeqCst),"refn":(nprod * per).saturating_sub(okn)}));
        sample(&sink, "quiesce");
        drop(keep);
        drop(sink);
    }
    cadence::verif::install(None);
    tr().finish();
    summary(json!({"engine":"queue-stress","seed":seed,"runs":runs,"emits":total_emits,"events":tr().count(),"sample":sample_cfg}));
}

// ------------------------------------------------------------------ direction A: scheduled replay
use serde_json::Value;

pub const STEP_TIMEOUT: Duration = Duration::from_secs(3);

pub fn sched_enable(on: bool) {
    let s = sched();
    let mut g = s.st.lock().unwrap();
    g.enabled = on;
    if !on {
        g.go.clear();
    }
    g.log.clear();
    s.cv.notify_all();
}

/// let thread `t` leave its park point
pub fn go(t: u64) {
    let s = sched();
    let mut g = s.st.lock().unwrap();
    g.go.insert(t, true);
    s.cv.notify_all();
}

/// wait until `pred` holds on the scheduler state
pub fn wait_sched<T>(limit: Duration, mut pred: impl FnMut(&SchedState) -> Option<T>) -> Option<T> {
    let s = sched();
    let t0 = Instant::now();
    let mut g = s.st.lock().unwrap();
    loop {
        if let Some(x) = pred(&g) {
            return Some(x);
        }
        let left = limit.checked_sub(t0.elapsed())?;
        let (g2, _) = s.cv.wait_timeout(g, left.min(Duration::from_millis(50))).unwrap();
        g = g2;
    }
}

/// release `t` and wait until it parks at one of `sites` (other sites it passes are released too)
pub fn step_to(t: u64, sites: &[&str]) -> Result<(String, u64, u64), String> {
    go(t);
    let t0 = Instant::now();
    loop {
        // wait until t is parked again and its go token has been consumed
        let r = wait_sched(STEP_TIMEOUT, |g| {
            if g.go.contains_key(&t) {
                return None;
            }
            g.parked.get(&t).cloned()
        });
        match r {
            None => return Err(format!("thread {} did not reach {:?} within {:?}", t, sites, STEP_TIMEOUT)),
            Some((site, a, b)) => {
                if sites.iter().any(|s| *s == site) {
                    return Ok((site, a, b));
                }
                if t0.elapsed() > STEP_TIMEOUT {
                    return Err(format!("thread {} wandering at {}", t, site));
                }
                // an intermediate point the model does not distinguish
                go(t);
            }
        }
    }
}

/// wait for a thread not in `known` to be parked at `site`
fn wait_new_thread(site: &str, known: &[u64]) -> Option<u64> {
    wait_sched(STEP_TIMEOUT, |g| g.parked.iter().find(|(t, (s, _, _))| s == site && !known.contains(t)).map(|(t, _)| *t))
}

struct EmitJob {
    tid: u64,
    join: std::thread::JoinHandle<Option<bool>>,
}

pub fn replay(a: &Args) {
    let input = std::fs::read_to_string(a.req("in")).expect("read behaviours");
    let maxdiv = a.num("maxdiv", 4);
    DRIVER_TID.store(tid(), Ordering::SeqCst);
    let _ = TRACE.set(Arc::new(Trace::create(&a.req("out"))));
    install_tracer(false);
    let mut nbeh = 0u64;
    let mut nsteps = 0u64;
    let mut ndiv = 0u64;
    let mut skipped = 0u64;
    let mut divs: Vec<Value> = vec![];
    let mut sample: Option<Value> = None;
    for line in input.lines() {
        if line.trim().is_empty() {
            continue;
        }
        if ndiv >= maxdiv {
            skipped += 1;
            continue;
        }
        let b: Value = serde_json::from_str(line).expect("behaviour");
        nbeh += 1;
        if sample.is_none() {
            sample = Some(b.clone());
        }
        let capv = b["cap"].as_u64().unwrap();
        let cap = if capv >= 1_000_000 { None } else { Some(capv as usize) };
        let eh = b["eh"].as_bool().unwrap();
        tr().ev(json!({"ev":"reset","cap":capv,"eh":eh,"beh":nbeh,"behaviour":b.clone()}));
        EXITED.store(0, Ordering::SeqCst);
        let base_tasks = tasks();
        let sh = new_shared(true);
        let outcomes: Arc<Mutex<HashMap<String, Out>>> = Arc::new(Mutex::new(HashMap::new()));
        let oc = outcomes.clone();
        *sh.outcome.lock().unwrap() = Box::new(move |m| *oc.lock().unwrap().get(m).unwrap_or(&Out::Ok));
        sched_enable(true);
        let mut handles: HashMap<u64, Arc<QueuingMetricSink>> = HashMap::new();
        handles.insert(1, Arc::new(build_sink(&sh, cap, eh)));
        let mut known: Vec<u64> = vec![];
        let mut worker = match wait_new_thread("q.run.enter", &known) {
            Some(t) => t,
            None => {
                // the code does not start its background thread the way the model does: a divergence like any other
                tr().ev(json!({"ev":"abandon","why":"worker thread did not start"}));
                sched_enable(false);
                ndiv += 1;
                if divs.len() < 5 {
                    divs.push(json!({"beh":nbeh,"why":"no background thread reached q.run.enter after the sink was built","behaviour":b.clone()}));
                }
                // end the scenario properly (the only handle is dropped, the wrapped sink must be released)
                if let Some(s) = handles.remove(&1) {
                    if let Ok(s) = Arc::try_unwrap(s) {
                        do_drop(s, 1);
                    }
                }
                let released = wait_until(Duration::from_secs(10), || sh.dropped.load(Ordering::SeqCst));
                tr().ev(json!({"ev":"end","released":released,"exited":worker_gone(base_tasks)}));
                continue;
            }
        };
        known.push(worker);
        let mut emits: HashMap<u64, EmitJob> = HashMap::new();
        let mut dropper: Option<(u64, std::thread::JoinHandle<()>)> = None;
        let mut helper: Option<u64> = None;
        let mut why: Option<String> = None;
        let mut counters: Option<Arc<QueuingMetricSink>> = None;
        let steps = b["steps"].as_array().unwrap();
        for (si, st) in steps.iter().enumerate() {
            nsteps += 1;
            let act = st["a"].as_str().unwrap();
            let h = st["h"].as_u64().unwrap_or(0);
            let mname = |m: &Value| format!("m{}", m.as_u64().unwrap_or(0));
            tr().ev(json!({"ev":"step","i":si,"a":act}));
            let r: Result<(), String> = (|| {
                match act {
                    "EmitStart" => {
                        let sink = handles.get(&h).ok_or("no such handle")?.clone();
                        let m = mname(&st["m"]);
                        let (tx, rx) = std::sync::mpsc::channel();
                        let join = std::thread::spawn(move || {
                            tx.send(tid()).unwrap();
                            let r = do_emit(&sink, h, &m);
                            drop(sink);
                            r
                        });
                        let t = rx.recv_timeout(STEP_TIMEOUT).map_err(|_| "emit thread did not start")?;
                        known.push(t);
                        wait_sched(STEP_TIMEOUT, |g| g.parked.get(&t).filter(|p| p.0 == "q.submit.begin").map(|_| ()))
                            .ok_or("emit did not reach the submit point")?;
                        emits.insert(h, EmitJob { tid: t, join });
                        Ok(())
                    }
                    "EmitTry" => {
                        let t = emits.get(&h).ok_or("no emit in progress")?.tid;
                        let (_, ok, _) = step_to(t, &["q.submit.sent"])?;
                        if (ok == 1) != st["ok"].as_bool().unwrap() {
                            return Err(format!("try_send: model ok={} code ok={}", st["ok"], ok == 1));
                        }
                        Ok(())
                    }
                    "EmitCount" => {
                        let t = emits.get(&h).ok_or("no emit in progress")?.tid;
                        step_to(t, &["q.submit.end"]).map(|_| ())
                    }
                    "EmitRet" => {
                        let j = emits.remove(&h).ok_or("no emit in progress")?;
                        go(j.tid);
                        let t0 = Instant::now();
                        while !j.join.is_finished() {
                            if t0.elapsed() > STEP_TIMEOUT {
                                return Err("emit did not return".into());
                            }
                            std::thread::sleep(Duration::from_micros(100));
                        }
                        let r = j.join.join().map_err(|_| "emit thread panicked")?;
                        if r != Some(st["ok"].as_bool().unwrap()) {
                            return Err(format!("emit result: model ok={} code {:?}", st["ok"], r));
                        }
                        Ok(())
                    }
                    "Delegate" => {
                        // flush() and stats() run the wrapped sink on THIS thread (logged by the wrapped sink as `wother`)
                        let sink = handles.get(&h).ok_or("no such handle")?.clone();
                        tr().ev(json!({"ev":"fcall","tid":tid()}));
                        match catch_unwind(AssertUnwindSafe(|| (sink.flush().is_ok(), sink.stats()))) {
                            Ok((true, _)) => Ok(()),
                            Ok((false, _)) => Err("flush of the queuing sink failed although the wrapped flush is Ok".into()),
                            Err(_) => {
                                tr().ev(json!({"ev":"epanic","m":"flush/stats"}));
                                Err("flush()/stats() panicked".into())
                            }
                        }
                    }
                    "Clone" => {
                        let h2 = st["h2"].as_u64().unwrap();
                        tr().ev(json!({"ev":"clone","h":h,"h2":h2}));
                        let c = QueuingMetricSink::clone(handles.get(&h).ok_or("no such handle")?);
                        handles.insert(h2, Arc::new(c));
                        Ok(())
                    }
                    "DropQuiet" | "DropStart" => {
                        let sink = handles.remove(&h).ok_or("no such handle")?;
                        if counters.as_ref().map(|c| Arc::ptr_eq(c, &sink)).unwrap_or(false) {
                            counters = None;
                        }
                        let sink = Arc::try_unwrap(sink).map_err(|_| "handle still in use")?;
                        let (tx, rx) = std::sync::mpsc::channel();
                        let join = std::thread::spawn(move || {
                            tx.send(tid()).unwrap();
                            tr().ev(json!({"ev":"dropbegin","h":h,"tid":tid()}));
                            let r = catch_unwind(AssertUnwindSafe(move || drop(sink)));
                            tr().ev(json!({"ev":"dropend","h":h,"panicked":r.is_err()}));
                        });
                        let t = rx.recv_timeout(STEP_TIMEOUT).map_err(|_| "drop thread did not start")?;
                        known.push(t);
                        if act == "DropQuiet" {
                            // must finish without reaching any stop point
                            let t0 = Instant::now();
                            loop {
                                if join.is_finished() {
                                    let _ = join.join();
                                    return Ok(());
                                }
                                let parked = wait_sched(Duration::from_millis(1), |g| g.parked.get(&t).cloned());
                                if let Some((site, _, _)) = parked {
                                    // the code stops the worker here although other handles are alive
                                    dropper = Some((t, join));
                                    return Err(format!("drop of a non-last handle reached {}", site));
                                }
                                if t0.elapsed() > STEP_TIMEOUT {
                                    tr().ev(json!({"ev":"drophang","h":h}));
                                    return Err("drop did not return".into());
                                }
                            }
                        } else {
                            let t0 = Instant::now();
                            loop {
                                if let Some(_) = wait_sched(Duration::from_millis(1), |g| g.parked.get(&t).filter(|p| p.0 == "q.drop.begin").map(|_| ())) {
                                    dropper = Some((t, join));
                                    return Ok(());
                                }
                                if join.is_finished() {
                                    let _ = join.join();
                                    return Err("last drop finished without stopping the worker".into());
                                }
                                if t0.elapsed() > STEP_TIMEOUT {
                                    tr().ev(json!({"ev":"drophang","h":h}));
                                    return Err("drop did not reach the stop point".into());
                                }
                            }
                        }
                    }
                    "StopTry" => {
                        let t = dropper.as_ref().ok_or("no drop in progress")?.0;
                        let (site, _, _) = step_to(t, &["q.stop.full", "q.stop.done"])?;
                        let sent = site == "q.stop.done";
                        if sent != st["sent"].as_bool().unwrap() {
                            return Err(format!("stop marker: model sent={} code sent={}", st["sent"], sent));
                        }
                        Ok(())
                    }
                    "SpawnHelper" => {
                        let t = dropper.as_ref().ok_or("no drop in progress")?.0;
                        step_to(t, &["q.stop.done"])?;
                        let ht = wait_new_thread("q.helper.begin", &known).ok_or("helper thread did not start")?;
                        known.push(ht);
                        helper = Some(ht);
                        Ok(())
                    }
                    "HelperSend" => {
                        let t = helper.ok_or("no helper")?;
                        step_to(t, &["q.helper.sent"])?;
                        go(t);
                        Ok(())
                    }
                    "DropRet" => {
                        let (t, join) = dropper.take().ok_or("no drop in progress")?;
                        go(t);
                        let t0 = Instant::now();
                        while !join.is_finished() {
                            // pass q.drop.end
                            if wait_sched(Duration::from_millis(1), |g| g.parked.get(&t).map(|_| ())).is_some() {
                                go(t);
                            }
                            if t0.elapsed() > STEP_TIMEOUT {
                                tr().ev(json!({"ev":"drophang","h":h}));
                                return Err("drop did not return".into());
                            }
                        }
                        let _ = join.join();
                        Ok(())
                    }
                    "Recv" => {
                        let (_, some, _) = step_to(worker, &["q.recv"])?;
                        let exp_some = st["m"].as_u64().unwrap() != 0;
                        if (some == 1) != exp_some {
                            return Err(format!("recv: model some={} code some={}", exp_some, some == 1));
                        }
                        Ok(())
                    }
                    "CountDrained" => step_to(worker, &["q.drained"]).map(|_| ()),
                    "TaskBegin" => step_to(worker, &["w.enter"]).map(|_| ()),
                    "TaskEnd" => {
                        let o = st["o"].as_str().unwrap();
                        outcomes.lock().unwrap().insert(mname(&st["m"]), if o == "err" { Out::Err } else { Out::Ok });
                        if o == "err" && eh {
                            step_to(worker, &["w.eh"]).map(|_| ())
                        } else {
                            step_to(worker, &["q.task.done"]).map(|_| ())
                        }
                    }
                    "HandlerDone" => step_to(worker, &["q.task.done"]).map(|_| ()),
                    "TaskPanic" => {
                        outcomes.lock().unwrap().insert(mname(&st["m"]), Out::Panic);
                        step_to(worker, &["q.respawn"]).map(|_| ())
                    }
                    "Respawn" => {
                        go(worker);
                        let nw = wait_new_thread("q.run.enter", &known).ok_or("respawned worker did not start")?;
                        known.push(nw);
                        worker = nw;
                        Ok(())
                    }
                    "Exit" => step_to(worker, &["q.exit"]).map(|_| ()),
                    "ThreadEnd" => {
                        go(worker);
                        Ok(())
                    }
                    "Release" => {
                        if wait_until(STEP_TIMEOUT, || sh.dropped.load(Ordering::SeqCst)) {
                            Ok(())
                        } else {
                            Err("wrapped sink not released".into())
                        }
                    }
                    other => Err(format!("unknown action {}", other)),
                }
            })();
            if let Err(e) = r {
                why = Some(format!("step {} {}: {}", si, act, e));
                break;
            }
            // compare the counters with the model after every step
            if counters.is_none() {
                counters = handles.values().next().cloned();
            }
            if let Some(c) = &counters {
                let got = (stat(|| c.submitted()), stat(|| c.drained()), stat(|| c.panics()));
                let exp = (st["s"].as_u64().unwrap(), st["d"].as_u64().unwrap(), st["p"].as_u64().unwrap());
                if got != exp {
                    why = Some(format!("step {} {}: counters (submitted,drained,panics) model {:?} code {:?}", si, act, exp, got));
                    break;
                }
                // queued() may panic in a broken tree (panic is data: C15 "never wraps around", C20)
                match catch_unwind(AssertUnwindSafe(|| c.queued())) {
                    Ok(q) => {
                        if q > got.0 {
                            tr().ev(json!({"ev":"sbegin"}));
                            tr().ev(json!({"ev":"sample","s":got.0,"d":got.1,"q":q.min(2_000_000_000),"p":got.2}));
                        }
                    }
                    Err(_) => {
                        tr().ev(json!({"ev":"sbegin"}));
                        tr().ev(json!({"ev":"spanic","msg":last_panic()}));
                        why = Some(format!("step {} {}: queued() panicked", si, act));
                        break;
                    }
                }
            }
            if sh.dropped.load(Ordering::SeqCst) != st["rel"].as_bool().unwrap() && act != "ThreadEnd" && act != "DropRet" {
                why = Some(format!("step {} {}: released model {} code {}", si, act, st["rel"], sh.dropped.load(Ordering::SeqCst)));
                break;
            }
        }
        drop(counters.take());
        // free-run whatever is left (only after a divergence) and finish the scenario
        sched_enable(false);
        if let Some(w) = &why {
            ndiv += 1;
            if divs.len() < 5 {
                divs.push(json!({"beh":nbeh,"why":w,"behaviour":b.clone()}));
            }
            tr().ev(json!({"ev":"note","divergence":w}));
            for (_, j) in emits.drain() {
                let _ = j.join.join();
            }
            if let Some((_, j)) = dropper.take() {
                let _ = j.join();
            }
            let hs: Vec<u64> = handles.keys().cloned().collect();
            for h in hs {
                if let Some(s) = handles.remove(&h) {
                    if let Ok(s) = Arc::try_unwrap(s) {
                        do_drop(s, h);
                    }
                }
            }
        }
        let released = wait_until(Duration::from_secs(10), || sh.dropped.load(Ordering::SeqCst));
        let exited = worker_gone(base_tasks);
        tr().ev(json!({"ev":"end","released":released,"exited":exited}));
    }
    cadence::verif::install(None);
    tr().finish();
    summary(json!({"engine":"queue-replay","behaviours":nbeh,"steps":nsteps,"events":tr().count(),
        "model_divergences":ndiv,"skipped_after_divergences":skipped,"first_divergences":divs,"sample":sample}));
}
