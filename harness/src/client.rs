//! Client/line engine: binds spec/Line.tla + spec/ClientProp.tla to cadence::StatsdClient, the
//! value conversions, the standalone metric constructors and the cadence_macros macros.
//!   client-replay  (A) every call shape enumerated by TLC on the real client, exact text comparison
//!   client-drive   (B) seeded random calls with hostile strings / extreme values on every entry point
//!   macro-child    one fresh process per global-client configuration (the global can be set once)
use crate::common::*;
use cadence::prelude::*;
use cadence::{
    Counter, Distribution, Gauge, Histogram, Meter, Metric, MetricBuilder, MetricError, MetricResult, MetricSink, Set,
    StatsdClient, Timer,
};
use rand::rngs::StdRng;
use rand::{Rng, SeedableRng};
use serde_json::{json, Value};
use std::collections::VecDeque;
use std::error::Error;
use std::io;
use std::panic::{catch_unwind, AssertUnwindSafe};
use std::sync::{Arc, Mutex};
use std::time::Duration;

// ------------------------------------------------------------------ values
#[derive(Clone, Debug)]
pub enum V {
    I64(i64),
    I32(i32),
    U64(u64),
    U32(u32),
    F64(f64),
    Dur(Duration),
    VU64(Vec<u64>),
    VF64(Vec<f64>),
    VDur(Vec<Duration>),
    None, // incr / decr
}

/// the 24 callable entry points: name, type code on the wire, value class
pub const ENTRIES: [(&str, &str, &str); 24] = [
    ("count_i64", "c", "i64"),
    ("count_i32", "c", "i32"),
    ("count_u64", "c", "u64"),
    ("count_u32", "c", "u32"),
    ("incr", "c", "none"),
    ("decr", "c", "none"),
    ("time_u64", "ms", "u64"),
    ("time_dur", "ms", "dur"),
    ("time_vu64", "ms", "vu64"),
    ("time_vdur", "ms", "vdur"),
    ("gauge_u64", "g", "u64"),
    ("gauge_f64", "g", "f64"),
    ("meter_u64", "m", "u64"),
    ("histogram_u64", "h", "u64"),
    ("histogram_f64", "h", "f64"),
    ("histogram_dur", "h", "dur"),
    ("histogram_vu64", "h", "vu64"),
    ("histogram_vf64", "h", "vf64"),
    ("histogram_vdur", "h", "vdur"),
    ("distribution_u64", "d", "u64"),
    ("distribution_f64", "d", "f64"),
    ("distribution_vu64", "d", "vu64"),
    ("distribution_vf64", "d", "vf64"),
    ("set_i64", "s", "i64"),
];

pub fn entry_info(name: &str) -> (&'static str, &'static str) {
    for (n, k, c) in ENTRIES.iter() {
        if *n == name {
            return (k, c);
        }
    }
    panic!("unknown entry {}", name)
}

// ------------------------------------------------------------------ independent oracle for numerals
/// canonical decimal numeral of an integer, written without the standard library's Display
fn dec_u128(mut x: u128) -> String {
    if x == 0 {
        return "0".into();
    }
    let mut d = vec![];
    while x > 0 {
        d.push(b'0' + (x % 10) as u8);
        x /= 10;
    }
    d.reverse();
    String::from_utf8(d).unwrap()
}
fn dec_i128(x: i128) -> String {
    if x < 0 {
        format!("-{}", dec_u128(x.unsigned_abs()))
    } else {
        dec_u128(x as u128)
    }
}
/// Duration -> count of `unit_ns`-nanosecond units, rounded down, in 128 bits
fn dur_units(d: &Duration, unit_ns: u128) -> u128 {
    (d.as_secs() as u128 * 1_000_000_000u128 + d.subsec_nanos() as u128) / unit_ns
}

/// What the property says must be on the wire for this value: Some(numerals) or None = invalid input.
/// Float numerals cannot be predicted independently: they are marked "f:<bits>" and checked by
/// parsing the emitted numeral back to the bit-identical number.
pub fn expect_vals(entry: &str, v: &V) -> Option<Vec<String>> {
    let (kind, _) = entry_info(entry);
    let unit: u128 = if kind == "ms" { 1_000_000 } else { 1 };
    // 2.5 is the one float used where numerals cannot be located in the text (hostile strings):
    // its canonical decimal numeral is known exactly
    let fl = |x: &f64| if *x == 2.5 { "2.5".to_string() } else { format!("f:{}", x.to_bits()) };
    let du = |d: &Duration| -> Option<String> {
        let n = dur_units(d, unit);
        if n > u64::MAX as u128 {
            None
        } else {
            Some(dec_u128(n))
        }
    };
    match v {
        V::None => Some(vec![if entry == "incr" { "1".into() } else { "-1".into() }]),
        V::I64(x) => Some(vec![dec_i128(*x as i128)]),
        V::I32(x) => Some(vec![dec_i128(*x as i128)]),
        V::U64(x) => Some(vec![dec_u128(*x as u128)]),
        V::U32(x) => Some(vec![dec_u128(*x as u128)]),
        V::F64(x) => Some(vec![fl(x)]),
        V::Dur(d) => du(d).map(|s| vec![s]),
        V::VU64(xs) => {
            if xs.is_empty() {
                None
            } else {
                Some(xs.iter().map(|x| dec_u128(*x as u128)).collect())
            }
        }
        V::VF64(xs) => {
            if xs.is_empty() {
                None
            } else {
                Some(xs.iter().map(fl).collect())
            }
        }
        V::VDur(ds) => {
            if ds.is_empty() {
                return None;
            }
            let mut out = vec![];
            for d in ds {
                out.push(du(d)?);
            }
            Some(out)
        }
    }
}

// ------------------------------------------------------------------ recording sink and handler
#[derive(Default)]
pub struct SinkState {
    pub log: Vec<String>,
    /// outcome of the next emits: None = accept, Some(kind) = refuse
    pub script: VecDeque<Option<io::ErrorKind>>,
    pub refusals: u64,
    pub events: Vec<Value>,
}
#[derive(Clone)]
pub struct RecSink(pub Arc<Mutex<SinkState>>);
impl MetricSink for RecSink {
    fn emit(&self, m: &str) -> io::Result<usize> {
        let mut s = self.0.lock().unwrap_or_else(|e| e.into_inner());
        s.log.push(m.to_string());
        s.events.push(json!({"ev":"emit","text":m}));
        match s.script.pop_front().unwrap_or(None) {
            None => {
                s.events.push(json!({"ev":"sret","ok":true,"kind":"","msg":""}));
                Ok(m.len())
            }
            Some(k) => {
                s.refusals += 1;
                let msg = format!("refused-{}", s.refusals);
                s.events.push(json!({"ev":"sret","ok":false,"kind":format!("{:?}", k),"msg":msg}));
                Err(io::Error::new(k, msg))
            }
        }
    }
}

fn describe_err(e: &MetricError) -> (String, String, String) {
    // (kind, io kind of the source, message of the source)
    let kind = format!("{:?}", e.kind());
    match e.source().and_then(|s| s.downcast_ref::<io::Error>()) {
        Some(ioe) => (kind, format!("{:?}", ioe.kind()), ioe.to_string()),
        None => (kind, String::new(), String::new()),
    }
}

// ------------------------------------------------------------------ call specification
#[derive(Clone, Debug)]
pub struct Tag {
    pub k: Option<String>,
    pub v: String,
}
#[derive(Clone, Debug)]
pub struct Cfg {
    pub base: String, // prefix without trailing dots
    pub ndots: usize, // trailing dots appended to it
    pub dtags: Vec<Tag>,
    pub dcid: Option<String>,
    pub handler: bool,
}
impl Cfg {
    pub fn prefix(&self) -> String {
        format!("{}{}", self.base, ".".repeat(self.ndots))
    }
}
#[derive(Clone, Debug)]
pub struct Call {
    pub entry: String,
    pub form: String, // plain | tagged | quiet | macro
    pub key: String,
    pub val: V,
    pub rate: Option<f64>,
    pub tags: Vec<Tag>,
    pub cid: Option<String>,
    pub ts: Option<u64>,
    /// order in which the optional builder methods are applied (the wire order must not depend on it)
    pub order: u64,
    /// none of the supplied strings contains a delimiter: the numerals can be located in the text
    pub clean: bool,
}

/// the value numerals of an emitted (float-normalised) line, located mechanically: the text before
/// the first '|' is <name>:<v1>:...:<vn>
pub fn extract_vals(text: &str, c: &Call) -> Option<Vec<String>> {
    if !c.clean {
        return None;
    }
    let n = expect_vals(&c.entry, &c.val)?.len();
    let head = &text[..text.find('|')?];
    let parts: Vec<&str> = head.rsplitn(n + 1, ':').collect();
    if parts.len() != n + 1 {
        return None;
    }
    Some(parts[..n].iter().rev().map(|s| s.to_string()).collect())
}
fn with_vals(e: &mut Value, norm: &str, c: &Call) {
    match extract_vals(norm, c) {
        Some(v) => {
            e["gv"] = json!(true);
            e["gotvals"] = json!(v);
        }
        None => {
            e["gv"] = json!(false);
            e["gotvals"] = json!([]);
        }
    }
}

fn tags_json(t: &[Tag]) -> Value {
    Value::Array(t.iter().map(|x| json!({"bare": x.k.is_none(), "k": x.k.clone().unwrap_or_default(), "v": x.v})).collect())
}
fn opt_json(o: &Option<String>) -> Value {
    json!({"has": o.is_some(), "v": o.clone().unwrap_or_default()})
}

pub fn cfg_event(c: &Cfg, extra: Value) -> Value {
    let mut e = json!({"ev":"reset","base":c.base,"ndots":c.ndots,"hasprefix":!c.prefix().is_empty(),
        "dtags":tags_json(&c.dtags),"dcid":opt_json(&c.dcid),"handler":c.handler});
    if let (Some(o), Some(x)) = (e.as_object_mut(), extra.as_object()) {
        for (k, v) in x {
            o.insert(k.clone(), v.clone());
        }
    }
    e
}

/// shortest numeral Rust prints for the rate: only used as a token; the rate's fidelity is checked by parse-back
fn rate_token(r: f64) -> String {
    format!("f:{}", r.to_bits())
}

pub fn call_event(c: &Call, global_set: bool) -> Value {
    let (kind, _) = entry_info(&c.entry);
    let ev = expect_vals(&c.entry, &c.val);
    json!({"ev":"call","entry":c.entry,"kind":kind,"form":c.form,"key":c.key,
        "valid":ev.is_some(),"vals":ev.unwrap_or_default(),
        "rate":json!({"has":c.rate.is_some(),"v":c.rate.map(rate_token).unwrap_or_default()}),
        "tags":tags_json(&c.tags),"cid":opt_json(&c.cid),
        "ts":json!({"has":c.ts.is_some(),"v":c.ts.map(|t| dec_u128(t as u128)).unwrap_or_default()}),
        "global_set":global_set,"order":c.order})
}

pub fn build_client(cfg: &Cfg, sink: RecSink, ehlog: Arc<Mutex<Vec<Value>>>) -> StatsdClient {
    // the plain constructor is used whenever nothing but the prefix is configured (every second time)
    static FLIP: std::sync::atomic::AtomicU64 = std::sync::atomic::AtomicU64::new(0);
    if cfg.dtags.is_empty() && cfg.dcid.is_none() && !cfg.handler && FLIP.fetch_add(1, std::sync::atomic::Ordering::Relaxed) % 2 == 0 {
        return StatsdClient::from_sink(&cfg.prefix(), sink);
    }
    let mut b = StatsdClient::builder(&cfg.prefix(), sink);
    // the three groups of builder options are given in each of their six orders in turn (the default tags keep their own order)
    const ORDERS: [[u8; 3]; 6] = [[0, 1, 2], [0, 2, 1], [1, 0, 2], [1, 2, 0], [2, 0, 1], [2, 1, 0]];
    let order = ORDERS[(FLIP.fetch_add(1, std::sync::atomic::Ordering::Relaxed) % 6) as usize];
    let mut ehlog = Some(ehlog);
    for group in order {
        match group {
            0 => {
                for t in &cfg.dtags {
                    b = match &t.k {
                        Some(k) => b.with_tag(k, &t.v),
                        None => b.with_tag_value(&t.v),
                    };
                }
            }
            1 => {
                if let Some(c) = &cfg.dcid {
                    b = b.with_container_id(c);
                }
            }
            _ => {
                if cfg.handler {
                    let ehlog = ehlog.take().unwrap();
                    b = b.with_error_handler(move |e: MetricError| {
                        let (kind, sk, sm) = describe_err(&e);
                        ehlog.lock().unwrap_or_else(|x| x.into_inner()).push(json!({"ev":"eh","kind":kind,"srckind":sk,"srcmsg":sm}));
                    });
                }
            }
        }
    }
    b.build()
}

// ------------------------------------------------------------------ performing a call on the real client
enum Opt<'a> {
    Rate(f64),
    Cid(&'a str),
    Ts(u64),
    Tag(Option<&'a str>, &'a str),
}

/// result of the tagged/plain forms: Ok(text of the returned metric) or Err(kind, source kind, source message)
type Ret = Result<String, (String, String, String)>;

fn finish<'m, T>(mut b: MetricBuilder<'m, '_, T>, opts: Vec<Opt<'m>>, quiet: bool) -> Option<Ret>
where
    T: Metric + From<String>,
{
    for o in opts {
        b = match o {
            Opt::Rate(r) => b.with_sampling_rate(r),
            Opt::Cid(c) => b.with_container_id(c),
            Opt::Ts(t) => b.with_timestamp(t),
            Opt::Tag(Some(k), v) => b.with_tag(k, v),
            Opt::Tag(None, v) => b.with_tag_value(v),
        };
    }
    if quiet {
        b.send();
        None
    } else {
        Some(conv(b.try_send()))
    }
}

fn conv<T: Metric>(r: MetricResult<T>) -> Ret {
    match r {
        Ok(m) => Ok(m.as_metric_str().to_string()),
        Err(e) => Err(describe_err(&e)),
    }
}

fn opts_of(c: &Call) -> Vec<Opt<'_>> {
    // tags keep their relative order; the other options are inserted at positions chosen by `order`
    let mut v: Vec<Opt> = c.tags.iter().map(|t| Opt::Tag(t.k.as_deref(), &t.v)).collect();
    let mut o = c.order;
    let ins = |v: &mut Vec<Opt<'_>>, x: Opt<'static>, o: &mut u64| {
        let pos = (*o % (v.len() as u64 + 1)) as usize;
        *o /= 7;
        v.insert(pos, x);
    };
    if let Some(r) = c.rate {
        ins(&mut v, Opt::Rate(r), &mut o);
    }
    if let Some(t) = c.ts {
        ins(&mut v, Opt::Ts(t), &mut o);
    }
    if let Some(cid) = &c.cid {
        let pos = (o % (v.len() as u64 + 1)) as usize;
        v.insert(pos, Opt::Cid(cid));
    }
    v
}

/// plain / tagged / quiet forms on a client
pub fn perform(client: &StatsdClient, c: &Call) -> Option<Ret> {
    let k = c.key.as_str();
    if c.form == "plain" {
        return Some(match (c.entry.as_str(), &c.val) {
            ("count_i64", V::I64(x)) => conv(client.count(k, *x)),
            ("count_i32", V::I32(x)) => conv(client.count(k, *x)),
            ("count_u64", V::U64(x)) => conv(client.count(k, *x)),
            ("count_u32", V::U32(x)) => conv(client.count(k, *x)),
            ("incr", _) => conv(client.incr(k)),
            ("decr", _) => conv(client.decr(k)),
            ("time_u64", V::U64(x)) => conv(client.time(k, *x)),
            ("time_dur", V::Dur(x)) => conv(client.time(k, *x)),
            ("time_vu64", V::VU64(x)) => conv(client.time(k, x.clone())),
            ("time_vdur", V::VDur(x)) => conv(client.time(k, x.clone())),
            ("gauge_u64", V::U64(x)) => conv(client.gauge(k, *x)),
            ("gauge_f64", V::F64(x)) => conv(client.gauge(k, *x)),
            ("meter_u64", V::U64(x)) => conv(client.meter(k, *x)),
            ("histogram_u64", V::U64(x)) => conv(client.histogram(k, *x)),
            ("histogram_f64", V::F64(x)) => conv(client.histogram(k, *x)),
            ("histogram_dur", V::Dur(x)) => conv(client.histogram(k, *x)),
            ("histogram_vu64", V::VU64(x)) => conv(client.histogram(k, x.clone())),
            ("histogram_vf64", V::VF64(x)) => conv(client.histogram(k, x.clone())),
            ("histogram_vdur", V::VDur(x)) => conv(client.histogram(k, x.clone())),
            ("distribution_u64", V::U64(x)) => conv(client.distribution(k, *x)),
            ("distribution_f64", V::F64(x)) => conv(client.distribution(k, *x)),
            ("distribution_vu64", V::VU64(x)) => conv(client.distribution(k, x.clone())),
            ("distribution_vf64", V::VF64(x)) => conv(client.distribution(k, x.clone())),
            ("set_i64", V::I64(x)) => conv(client.set(k, *x)),
            (e, v) => panic!("harness: entry {} with value {:?}", e, v),
        });
    }
    let q = c.form == "quiet";
    let o = opts_of(c);
    match (c.entry.as_str(), &c.val) {
        ("count_i64", V::I64(x)) => finish(client.count_with_tags(k, *x), o, q),
        ("count_i32", V::I32(x)) => finish(client.count_with_tags(k, *x), o, q),
        ("count_u64", V::U64(x)) => finish(client.count_with_tags(k, *x), o, q),
        ("count_u32", V::U32(x)) => finish(client.count_with_tags(k, *x), o, q),
        ("incr", _) => finish(client.incr_with_tags(k), o, q),
        ("decr", _) => finish(client.decr_with_tags(k), o, q),
        ("time_u64", V::U64(x)) => finish(client.time_with_tags(k, *x), o, q),
        ("time_dur", V::Dur(x)) => finish(client.time_with_tags(k, *x), o, q),
        ("time_vu64", V::VU64(x)) => finish(client.time_with_tags(k, x.clone()), o, q),
        ("time_vdur", V::VDur(x)) => finish(client.time_with_tags(k, x.clone()), o, q),
        ("gauge_u64", V::U64(x)) => finish(client.gauge_with_tags(k, *x), o, q),
        ("gauge_f64", V::F64(x)) => finish(client.gauge_with_tags(k, *x), o, q),
        ("meter_u64", V::U64(x)) => finish(client.meter_with_tags(k, *x), o, q),
        ("histogram_u64", V::U64(x)) => finish(client.histogram_with_tags(k, *x), o, q),
        ("histogram_f64", V::F64(x)) => finish(client.histogram_with_tags(k, *x), o, q),
        ("histogram_dur", V::Dur(x)) => finish(client.histogram_with_tags(k, *x), o, q),
        ("histogram_vu64", V::VU64(x)) => finish(client.histogram_with_tags(k, x.clone()), o, q),
        ("histogram_vf64", V::VF64(x)) => finish(client.histogram_with_tags(k, x.clone()), o, q),
        ("histogram_vdur", V::VDur(x)) => finish(client.histogram_with_tags(k, x.clone()), o, q),
        ("distribution_u64", V::U64(x)) => finish(client.distribution_with_tags(k, *x), o, q),
        ("distribution_f64", V::F64(x)) => finish(client.distribution_with_tags(k, *x), o, q),
        ("distribution_vu64", V::VU64(x)) => finish(client.distribution_with_tags(k, x.clone()), o, q),
        ("distribution_vf64", V::VF64(x)) => finish(client.distribution_with_tags(k, x.clone()), o, q),
        ("set_i64", V::I64(x)) => finish(client.set_with_tags(k, *x), o, q),
        (e, v) => panic!("harness: entry {} with value {:?}", e, v),
    }
}

/// the standalone constructors (Counter::new ...): Some(text) where one exists for this entry/value
pub fn standalone(fullprefix: &str, c: &Call) -> Option<String> {
    let k = c.key.as_str();
    Some(match (c.entry.as_str(), &c.val) {
        ("count_i64", V::I64(x)) => Counter::new(fullprefix, k, *x).as_metric_str().to_string(),
        ("time_u64", V::U64(x)) => Timer::new(fullprefix, k, *x).as_metric_str().to_string(),
        ("gauge_u64", V::U64(x)) => Gauge::new(fullprefix, k, *x).as_metric_str().to_string(),
        ("gauge_f64", V::F64(x)) => Gauge::new_f64(fullprefix, k, *x).as_metric_str().to_string(),
        ("meter_u64", V::U64(x)) => Meter::new(fullprefix, k, *x).as_metric_str().to_string(),
        ("histogram_u64", V::U64(x)) => Histogram::new(fullprefix, k, *x).as_metric_str().to_string(),
        ("histogram_f64", V::F64(x)) => Histogram::new_f64(fullprefix, k, *x).as_metric_str().to_string(),
        ("distribution_u64", V::U64(x)) => Distribution::new(fullprefix, k, *x).as_metric_str().to_string(),
        ("distribution_f64", V::F64(x)) => Distribution::new_f64(fullprefix, k, *x).as_metric_str().to_string(),
        ("set_i64", V::I64(x)) => Set::new(fullprefix, k, *x).as_metric_str().to_string(),
        _ => return None,
    })
}

/// Replace every float numeral of the emitted text that the call predicted as "f:<bits>" by that
/// token when it parses back to the bit-identical number (C02): afterwards the text can be compared
/// with the grammar exactly. Returns (normalised text, number of numerals that did NOT round-trip).
pub fn normalise_floats(text: &str, c: &Call) -> (String, u64) {
    let mut bad = 0u64;
    let mut out = text.to_string();
    let exp = expect_vals(&c.entry, &c.val).unwrap_or_default();
    let has_float_vals = c.clean && exp.iter().any(|v| v.starts_with("f:"));
    // split "<name>:<v1>:<v2>|<type>..." - values are between the LAST ':' run before the first '|' ...
    // names may contain ':' themselves, so locate the value list from the right of the first section.
    if has_float_vals {
        if let Some(bar) = find_type_bar(&out, c) {
            let head = &out[..bar];
            let n = exp.len();
            let parts: Vec<&str> = head.rsplitn(n + 1, ':').collect(); // reversed: vN..v1, name
            if parts.len() == n + 1 {
                let mut vals: Vec<String> = vec![];
                for (i, p) in parts[..n].iter().rev().enumerate() {
                    let want = exp[i].strip_prefix("f:").and_then(|b| b.parse::<u64>().ok());
                    match (want, p.parse::<f64>()) {
                        (Some(bits), Ok(x)) if x.to_bits() == bits || (f64::from_bits(bits).is_nan() && x.is_nan()) => vals.push(exp[i].clone()),
                        (Some(_), _) => {
                            bad += 1;
                            vals.push(p.to_string());
                        }
                        (None, _) => vals.push(p.to_string()),
                    }
                }
                out = format!("{}:{}{}", parts[n], vals.join(":"), &out[bar..]);
            }
        }
    }
    if let (Some(r), true) = (c.rate, c.clean) {
        // the rate section is "|@<numeral>" directly after the type code
        if let Some(bar) = find_type_bar(&out, c) {
            let (kind, _) = entry_info(&c.entry);
            let after = bar + 1 + kind.len();
            if out[after..].starts_with("|@") {
                let rest = &out[after + 2..];
                let end = rest.find('|').unwrap_or(rest.len());
                match rest[..end].parse::<f64>() {
                    Ok(x) if x.to_bits() == r.to_bits() || (r.is_nan() && x.is_nan()) => {
                        out = format!("{}|@{}{}", &out[..after], rate_token(r), &rest[end..]);
                    }
                    _ => bad += 1,
                }
            }
        }
    }
    (out, bad)
}

/// byte position of the '|' that precedes the type code: the first '|' of the line (prefixes and keys
/// generated by the drivers contain '|' or ':' only in the hostile runs, where no floats are used)
fn find_type_bar(text: &str, _c: &Call) -> Option<usize> {
    text.find('|')
}

/// run one call and emit its trace events
pub fn run_call(t: &Trace, client: &StatsdClient, sink: &RecSink, ehlog: &Arc<Mutex<Vec<Value>>>, c: &Call, cfg: &Cfg) -> Value {
    t.ev(call_event(c, true));
    sink.0.lock().unwrap().events.clear();
    ehlog.lock().unwrap().clear();
    let r = catch_unwind(AssertUnwindSafe(|| perform(client, c)));
    let mut badfloat = 0;
    for mut e in sink.0.lock().unwrap().events.drain(..) {
        if e["ev"] == "emit" {
            let raw = e["text"].as_str().unwrap().to_string();
            let (n, b) = normalise_floats(&raw, c);
            badfloat += b;
            with_vals(&mut e, &n, c);
            e["text"] = json!(n);
            e["raw"] = json!(raw);
        }
        t.ev(e);
    }
    for e in ehlog.lock().unwrap().drain(..) {
        t.ev(e);
    }
    let end = match r {
        Err(_) => json!({"ev":"end","panicked":true,"has":false,"ok":false,"text":"","kind":"","srckind":"","srcmsg":"","badfloat":badfloat,"standalone":"","hasstandalone":false,"evals":0,"args":0,"msg":last_panic()}),
        Ok(None) => json!({"ev":"end","panicked":false,"has":false,"ok":false,"text":"","kind":"","srckind":"","srcmsg":"","badfloat":badfloat,"standalone":"","hasstandalone":false,"evals":0,"args":0}),
        Ok(Some(Ok(text))) => {
            let (n, b) = normalise_floats(&text, c);
            // the standalone constructor must produce the same text for the same full name and value
            // (it knows nothing about rate / tags / container / timestamp: only compared when none are used)
            let bare = c.rate.is_none() && c.tags.is_empty() && c.cid.is_none() && c.ts.is_none() && cfg.dtags.is_empty() && cfg.dcid.is_none();
            let fullprefix = if cfg.prefix().is_empty() { String::new() } else { format!("{}.", cfg.base) };
            let sa = if bare { catch_unwind(AssertUnwindSafe(|| standalone(&fullprefix, c))).unwrap_or(None) } else { None };
            let san = sa.as_ref().map(|s| normalise_floats(s, c).0);
            json!({"ev":"end","panicked":false,"has":true,"ok":true,"text":n,"kind":"","srckind":"","srcmsg":"","badfloat":badfloat + b,
                "hasstandalone":san.is_some(),"standalone":san.unwrap_or_default(),"evals":0,"args":0})
        }
        Ok(Some(Err((k, sk, sm)))) => json!({"ev":"end","panicked":false,"has":true,"ok":false,"text":"","kind":k,"srckind":sk,"srcmsg":sm,"badfloat":badfloat,"standalone":"","hasstandalone":false,"evals":0,"args":0}),
    };
    t.ev(end.clone());
    end
}

// ------------------------------------------------------------------ direction A: shapes enumerated by TLC
fn tag_pool(name: &str) -> Tag {
    match name {
        "dkv" => Tag { k: Some("dk".into()), v: "dv".into() },
        "dbare" => Tag { k: None, v: "db".into() },
        "kv" => Tag { k: Some("k".into()), v: "v".into() },
        "bare" => Tag { k: None, v: "b".into() },
        "kv2" => Tag { k: Some("e".into()), v: "w".into() },
        "dkv_b" => Tag { k: Some("dk".into()), v: "d2".into() },
        "kv_b" => Tag { k: Some("k".into()), v: "v2".into() },
        "dkv_c" => Tag { k: Some("dk".into()), v: "v3".into() },
        other => Tag { k: None, v: other.to_string() },
    }
}

fn value_for(class: &str, vshape: &str) -> V {
    // the model's value tokens: 4,5,6 (integers) and 4.5,5.5,6.5 (floats); packed shapes p0..p3
    let n = match vshape {
        "single" => 1,
        "p0" => 0,
        "p1" => 1,
        "p2" => 2,
        _ => 3,
    };
    match class {
        "i64" => V::I64(4),
        "i32" => V::I32(4),
        "u64" => V::U64(4),
        "u32" => V::U32(4),
        "f64" => V::F64(4.5),
        "dur" => V::Dur(Duration::from_millis(4)),
        "vu64" => V::VU64((0..n).map(|i| 4 + i as u64).collect()),
        "vf64" => V::VF64((0..n).map(|i| 4.5 + i as f64).collect()),
        "vdur" => V::VDur((0..n).map(|i| Duration::from_millis(4 + i as u64)).collect()),
        _ => V::None,
    }
}

fn strs(v: &Value) -> Vec<String> {
    v.as_array().map(|a| a.iter().map(|x| x.as_str().unwrap().to_string()).collect()).unwrap_or_default()
}

pub fn shape_to_call(s: &Value) -> (Cfg, Call) {
    let entry = s["e"].as_str().unwrap().to_string();
    let (kind, class) = entry_info(&entry);
    let opts = strs(&s["opts"]);
    let cfg = Cfg {
        base: s["base"].as_str().unwrap().to_string(),
        ndots: s["ndots"].as_u64().unwrap() as usize,
        dtags: strs(&s["dtags"]).iter().map(|n| tag_pool(n)).collect(),
        dcid: if s["dcid"].as_bool().unwrap() { Some("dc".into()) } else { None },
        handler: true,
    };
    let mut val = value_for(class, s["vshape"].as_str().unwrap());
    if kind == "h" && class == "dur" {
        val = V::Dur(Duration::from_nanos(4));
    }
    if kind == "h" && class == "vdur" {
        if let V::VDur(v) = &val {
            val = V::VDur((0..v.len()).map(|i| Duration::from_nanos(4 + i as u64)).collect());
        }
    }
    let call = Call {
        entry,
        form: s["form"].as_str().unwrap().to_string(),
        key: s["key"].as_str().unwrap().to_string(),
        val,
        rate: if opts.iter().any(|o| o == "rate") { Some(if opts.iter().any(|o| o == "ts") { 1.0 } else { 0.5 }) } else { None },
        tags: strs(&s["ctags"]).iter().map(|n| tag_pool(n)).collect(),
        cid: if opts.iter().any(|o| o == "cid") { Some("oc".into()) } else { None },
        ts: if opts.iter().any(|o| o == "ts") { Some(7) } else { None },
        order: s["order"].as_u64().unwrap_or(0),
        clean: true,
    };
    (cfg, call)
}

pub fn replay(a: &Args) {
    let input = std::fs::read_to_string(a.req("in")).expect("read shapes");
    let t = Trace::create(&a.req("out"));
    let (mut n, mut ndiv) = (0u64, 0u64);
    let mut divs = vec![];
    let mut sample = json!(null);
    let mut macro_shapes: Vec<Value> = vec![];
    for line in input.lines() {
        if line.trim().is_empty() {
            continue;
        }
        let s: Value = serde_json::from_str(line).expect("shape");
        if s["form"] == "macro" {
            macro_shapes.push(s);
            continue;
        }
        n += 1;
        let (cfg, call) = shape_to_call(&s);
        let sink = RecSink(Arc::new(Mutex::new(SinkState::default())));
        let ehlog = Arc::new(Mutex::new(vec![]));
        // sink outcome chosen by the shape: accept / refuse
        if let Some(k) = s["sink"].as_str().and_then(|x| x.strip_prefix("refuse-")) {
            let kind = ALL_KINDS.iter().find(|(n, _)| *n == k).map(|(_, v)| *v).expect("known error kind");
            sink.0.lock().unwrap().script.push_back(Some(kind));
        }
        let client = build_client(&cfg, sink.clone(), ehlog.clone());
        t.ev(cfg_event(&cfg, json!({"shape": n})));
        let end = run_call(&t, &client, &sink, &ehlog, &call, &cfg);
        // model divergence: the exact text TLC's Render predicted for this shape (no floats normalised in it)
        let exp = s["text"].as_str().unwrap_or("");
        let got = sink.0.lock().unwrap().log.clone();
        let expect_emit = s["valid"].as_bool().unwrap_or(true);
        let ok = if expect_emit { got.len() == 1 && got[0] == exp } else { got.is_empty() };
        if !ok {
            ndiv += 1;
            if divs.len() < 5 {
                divs.push(json!({"shape": s, "model_text": exp, "code_emitted": got, "end": end}));
            }
        }
        if sample.is_null() {
            sample = json!({"shape": s, "emitted": got});
        }
    }
    t.finish();
    // macro shapes are written out for the child processes
    if let Some(p) = a.get("macro-out") {
        let mut f = String::new();
        for s in &macro_shapes {
            f.push_str(&s.to_string());
            f.push('\n');
        }
        std::fs::write(p, f).unwrap();
    }
    summary(json!({"engine":"client-replay","shapes":n,"macro_shapes":macro_shapes.len(),"events":t.count(),
        "model_divergences":ndiv,"first_divergences":divs,"sample":sample}));
}

/// io::ErrorKinds a sink may refuse with (C03: "refuse with any io::ErrorKind")
pub const ALL_KINDS: [(&str, io::ErrorKind); 20] = [
    ("NotFound", io::ErrorKind::NotFound),
    ("PermissionDenied", io::ErrorKind::PermissionDenied),
    ("ConnectionRefused", io::ErrorKind::ConnectionRefused),
    ("ConnectionReset", io::ErrorKind::ConnectionReset),
    ("ConnectionAborted", io::ErrorKind::ConnectionAborted),
    ("NotConnected", io::ErrorKind::NotConnected),
    ("AddrInUse", io::ErrorKind::AddrInUse),
    ("AddrNotAvailable", io::ErrorKind::AddrNotAvailable),
    ("BrokenPipe", io::ErrorKind::BrokenPipe),
    ("AlreadyExists", io::ErrorKind::AlreadyExists),
    ("WouldBlock", io::ErrorKind::WouldBlock),
    ("InvalidInput", io::ErrorKind::InvalidInput),
    ("InvalidData", io::ErrorKind::InvalidData),
    ("TimedOut", io::ErrorKind::TimedOut),
    ("WriteZero", io::ErrorKind::WriteZero),
    ("Interrupted", io::ErrorKind::Interrupted),
    ("Unsupported", io::ErrorKind::Unsupported),
    ("UnexpectedEof", io::ErrorKind::UnexpectedEof),
    ("OutOfMemory", io::ErrorKind::OutOfMemory),
    ("Other", io::ErrorKind::Other),
];

// ------------------------------------------------------------------ direction B: random calls
const HOSTILE: [&str; 14] = ["", "a", "é", "日本", ":", "|", "#", ",", "@", "\n", ".", "a:b|c#d,e@f", "x.y..", "\u{1F600}"];

fn rand_str(rng: &mut StdRng, hostile: bool) -> String {
    if hostile {
        let n = rng.random_range(0..3);
        (0..n).map(|_| HOSTILE[rng.random_range(0..HOSTILE.len())]).collect::<Vec<_>>().join("")
    } else {
        let n = rng.random_range(1..12);
        (0..n).map(|_| ["a", "b", "z", "0", "9", "_", "-", "é", "ß", "日", "K"][rng.random_range(0..11)]).collect()
    }
}

fn rand_u64(rng: &mut StdRng) -> u64 {
    match rng.random_range(0..8) {
        0 => 0,
        1 => 1,
        2 => u64::MAX,
        3 => u32::MAX as u64,
        4 => u32::MAX as u64 + 1,
        5 => i64::MAX as u64,
        6 => 10u64.pow(rng.random_range(0..20)),
        _ => rng.random(),
    }
}
fn rand_i64(rng: &mut StdRng) -> i64 {
    match rng.random_range(0..7) {
        0 => 0,
        1 => -1,
        2 => i64::MIN,
        3 => i64::MAX,
        4 => i32::MIN as i64 - 1,
        5 => -(10i64.pow(rng.random_range(0..19))),
        _ => rng.random(),
    }
}
fn rand_f64(rng: &mut StdRng, finite_only: bool) -> f64 {
    let x = match rng.random_range(0..14) {
        0 => 0.0,
        1 => -0.0,
        2 => f64::MIN_POSITIVE,
        3 => f64::from_bits(1),                  // smallest subnormal
        4 => f64::from_bits(0x000f_ffff_ffff_ffff), // largest subnormal
        5 => f64::MAX,
        6 => f64::MIN,
        7 => 1e300,
        8 => 0.1 + 0.2,
        9 => f64::from_bits((2f64.powi(rng.random_range(-60..60))).to_bits() + rng.random_range(0..3) - 1),
        10 => 10f64.powi(rng.random_range(-30..30)),
        11 => f64::NAN,
        12 => if rng.random_bool(0.5) { f64::INFINITY } else { f64::NEG_INFINITY },
        _ => f64::from_bits(rng.random()),
    };
    if finite_only && !x.is_finite() {
        1.5
    } else {
        x
    }
}
/// Durations around the overflow boundaries of the two units (C02)
pub fn rand_dur(rng: &mut StdRng) -> Duration {
    let ms_max_s = u64::MAX / 1000; // largest seconds whose milliseconds fit
    let ns_max_s = u64::MAX / 1_000_000_000;
    match rng.random_range(0..14) {
        0 => Duration::new(0, 0),
        1 => Duration::new(0, 999_999),          // below one millisecond
        2 => Duration::new(0, 1_000_000),
        3 => Duration::new(ms_max_s, 615_999_999), // largest accepted by timers
        4 => Duration::new(ms_max_s, 616_000_000), // first rejected by timers
        5 => Duration::new(ns_max_s, 709_551_615), // largest accepted by histograms
        6 => Duration::new(ns_max_s, 709_551_616), // first rejected by histograms
        7 => Duration::new(u64::MAX, 999_999_999),
        8 => Duration::new(ms_max_s + 1, 0),
        9 => Duration::new(ns_max_s + 1, 0),
        10 => Duration::new(rng.random_range(0..100), rng.random_range(0..1_000_000_000)),
        11 => Duration::new(ms_max_s - rng.random_range(0..3), rng.random_range(0..1_000_000_000)),
        12 => Duration::new(ns_max_s - rng.random_range(0..3), rng.random_range(0..1_000_000_000)),
        _ => Duration::new(rng.random::<u64>() >> rng.random_range(0..64), rng.random_range(0..1_000_000_000)),
    }
}

/// the boundary values of a value class (finite floats only: the macro arguments are judged by exact text)
fn boundary_vals(class: &str) -> Vec<V> {
    match class {
        "i64" => vec![V::I64(i64::MIN), V::I64(i64::MAX), V::I64(-1), V::I64(0)],
        "i32" => vec![V::I32(i32::MIN), V::I32(i32::MAX)],
        "u64" => vec![V::U64(0), V::U64(u64::MAX), V::U64(i64::MAX as u64 + 1), V::U64(u32::MAX as u64 + 1)],
        "u32" => vec![V::U32(u32::MAX), V::U32(0)],
        "f64" => vec![V::F64(-0.0), V::F64(2.5), V::F64(1e300), V::F64(5e-324), V::F64(-1.0)],
        "dur" => vec![V::Dur(Duration::new(0, 0)), V::Dur(Duration::new(0, 999_999)), V::Dur(Duration::new(u64::MAX, 999_999_999)),
                      V::Dur(Duration::new(18_446_744_073, 709_551_615 % 1_000_000_000))],
        "vu64" => vec![V::VU64(vec![]), V::VU64(vec![u64::MAX, 0, 7])],
        "vf64" => vec![V::VF64(vec![]), V::VF64(vec![-0.0, 1.5])],
        "vdur" => vec![V::VDur(vec![]), V::VDur(vec![Duration::new(1, 0), Duration::new(u64::MAX, 0)])],
        _ => vec![],
    }
}

fn rand_val(rng: &mut StdRng, class: &str, finite_only: bool) -> V {
    let n = match rng.random_range(0..10) {
        0 => 0,
        1 => 1,
        2 => 2,
        3 => 40,
        _ => rng.random_range(1..6),
    };
    match class {
        "i64" => V::I64(rand_i64(rng)),
        "i32" => V::I32(match rng.random_range(0..4) { 0 => i32::MIN, 1 => i32::MAX, 2 => -1, _ => rng.random() }),
        "u64" => V::U64(rand_u64(rng)),
        "u32" => V::U32(match rng.random_range(0..3) { 0 => u32::MAX, 1 => 0, _ => rng.random() }),
        "f64" => V::F64(rand_f64(rng, finite_only)),
        "dur" => V::Dur(rand_dur(rng)),
        "vu64" => V::VU64((0..n).map(|_| rand_u64(rng)).collect()),
        "vf64" => V::VF64((0..n).map(|_| rand_f64(rng, finite_only)).collect()),
        "vdur" => {
            // mostly valid lists with, sometimes, one overflowing element at a random position
            let mut v: Vec<Duration> = (0..n).map(|_| Duration::new(rng.random_range(0..1000), rng.random_range(0..1_000_000_000))).collect();
            if n > 0 && rng.random_bool(0.4) {
                let i = rng.random_range(0..n);
                v[i] = rand_dur(rng);
            }
            V::VDur(v)
        }
        _ => V::None,
    }
}

pub fn drive(a: &Args) {
    let seed = a.num("seed", 1);
    let clients = a.num("clients", 20);
    let calls = a.num("calls", 100);
    let t = Trace::create(&a.req("out"));
    let mut rng = StdRng::seed_from_u64(seed ^ 0xc11e_0004);
    let mut ncalls = 0u64;
    let mut npanic = 0u64;
    let mut sample = json!(null);
    for ci in 0..clients {
        let hostile = ci % 3 == 2;
        let mut base = rand_str(&mut rng, hostile);
        // dots elsewhere in the prefix are ordinary characters: only TRAILING dots are removed
        match rng.random_range(0..6) { 0 => base.insert(0, '.'), 1 => base.insert_str(0, ".."), 2 => base.insert(base.chars().next().map(|c| c.len_utf8()).unwrap_or(0), '.'), _ => {} }
        while base.ends_with('.') {
            base.pop();
        }
        let ndots = if base.is_empty() { [0, 0, 2][rng.random_range(0..3)] } else { rng.random_range(0..3) };
        let nd = rng.random_range(0..4);
        let cfg = Cfg {
            base,
            ndots,
            dtags: {
                // keys are sometimes repeated on purpose: every configured tag must be carried
                let mut v: Vec<Tag> = vec![];
                for _ in 0..nd {
                    let k = if rng.random_bool(0.5) {
                        let reuse = v.iter().filter_map(|t: &Tag| t.k.clone()).next();
                        Some(if rng.random_bool(0.35) && reuse.is_some() { reuse.unwrap() } else { rand_str(&mut rng, hostile) })
                    } else {
                        None
                    };
                    v.push(Tag { k, v: rand_str(&mut rng, hostile) });
                }
                v
            },
            dcid: if rng.random_bool(0.4) { Some(rand_str(&mut rng, hostile)) } else { None },
            handler: rng.random_bool(0.8),
        };
        let sink = RecSink(Arc::new(Mutex::new(SinkState::default())));
        let ehlog = Arc::new(Mutex::new(vec![]));
        let client = match catch_unwind(AssertUnwindSafe(|| build_client(&cfg, sink.clone(), ehlog.clone()))) {
            Ok(c) => c,
            Err(_) => {
                t.ev(cfg_event(&cfg, json!({"client": ci})));
                t.ev(json!({"ev":"buildpanic","msg":last_panic()}));
                npanic += 1;
                continue;
            }
        };
        t.ev(cfg_event(&cfg, json!({"client": ci, "hostile": hostile})));
        let prefuse = [0.0, 0.0, 0.3, 0.7][rng.random_range(0..4)];
        for _ in 0..calls {
            let (entry, _kind, class) = ENTRIES[rng.random_range(0..ENTRIES.len())];
            let form = ["plain", "tagged", "quiet", "tagged", "quiet"][rng.random_range(0..5)].to_string();
            let plain = form == "plain";
            let nt = if plain { 0 } else { rng.random_range(0..4) };
            // in hostile runs keys may contain delimiters; floats are then kept out of the values so
            // that the numerals can be located in the text without ambiguity
            let finite_only = ci % 2 == 0;
            let mut val = rand_val(&mut rng, class, finite_only);
            if hostile {
                if let V::F64(_) = val { val = V::F64(2.5); }
                if let V::VF64(v) = &val { val = V::VF64(v.iter().map(|_| 2.5).collect()); }
            }
            let call = Call {
                entry: entry.to_string(),
                form,
                key: { let mut k = rand_str(&mut rng, hostile); if !hostile && k.is_empty() { k.push('k'); } k },
                val,
                rate: if !plain && !hostile && rng.random_bool(0.3) { Some(rand_f64(&mut rng, true)) } else { None },
                tags: (0..nt).map(|_| {
                    // sometimes the key of a default tag or of an earlier call tag is used again
                    let dk = cfg.dtags.iter().filter_map(|t| t.k.clone()).next();
                    let k = if rng.random_bool(0.6) { Some(if rng.random_bool(0.3) && dk.is_some() { dk.unwrap() } else { rand_str(&mut rng, hostile) }) } else { None };
                    Tag { k, v: rand_str(&mut rng, hostile) }
                }).collect(),
                cid: if !plain && rng.random_bool(0.3) { Some(rand_str(&mut rng, hostile)) } else { None },
                ts: if !plain && rng.random_bool(0.3) { Some(rand_u64(&mut rng)) } else { None },
                order: rng.random(),
                clean: !hostile,
            };
            if rng.random_bool(prefuse) {
                let k = ALL_KINDS[rng.random_range(0..ALL_KINDS.len())].1;
                sink.0.lock().unwrap().script.push_back(Some(k));
            } else {
                sink.0.lock().unwrap().script.push_back(None);
            }
            ncalls += 1;
            let end = run_call(&t, &client, &sink, &ehlog, &call, &cfg);
            sink.0.lock().unwrap().script.clear();
            if end["panicked"] == true {
                npanic += 1;
            }
            if sample.is_null() && !hostile {
                sample = json!({"cfg": format!("{:?}", cfg), "call": format!("{:?}", call), "emitted": sink.0.lock().unwrap().log.last()});
            }
        }
    }
    t.finish();
    summary(json!({"engine":"client-drive","seed":seed,"clients":clients,"calls":ncalls,"events":t.count(),"panics":npanic,"sample":sample}));
}

// ------------------------------------------------------------------ macros: one process per configuration
use std::cell::Cell;

thread_local! { static EVALS: Cell<u64> = const { Cell::new(0) }; }
/// wraps a macro argument so that its evaluations are counted
fn ev<T>(x: T) -> T {
    EVALS.with(|e| e.set(e.get() + 1));
    x
}

/// invoke `$mac!` with 0..3 key => value tags taken from a slice (the macro needs a literal tag list)
macro_rules! with_tags {
    ($mac:ident, $key:expr, $val:expr, $tags:expr) => {{
        let t: &Vec<Tag> = $tags;
        let k = |i: usize| t[i].k.as_deref().unwrap_or("");
        let v = |i: usize| t[i].v.as_str();
        match t.len() {
            0 => { cadence_macros::$mac!(ev($key), ev($val)); }
            1 => { cadence_macros::$mac!(ev($key), ev($val), ev(k(0)) => ev(v(0))); }
            2 => { cadence_macros::$mac!(ev($key), ev($val), ev(k(0)) => ev(v(0)), ev(k(1)) => ev(v(1))); }
            _ => { cadence_macros::$mac!(ev($key), ev($val), ev(k(0)) => ev(v(0)), ev(k(1)) => ev(v(1)), ev(k(2)) => ev(v(2))); }
        }
    }};
}

fn macro_call(c: &Call) {
    let key = c.key.as_str();
    let t = &c.tags;
    match (c.entry.as_str(), c.val.clone()) {
        ("count_i64", V::I64(x)) => with_tags!(statsd_count, key, x, t),
        ("count_i32", V::I32(x)) => with_tags!(statsd_count, key, x, t),
        ("count_u64", V::U64(x)) => with_tags!(statsd_count, key, x, t),
        ("count_u32", V::U32(x)) => with_tags!(statsd_count, key, x, t),
        ("time_u64", V::U64(x)) => with_tags!(statsd_time, key, x, t),
        ("time_dur", V::Dur(x)) => with_tags!(statsd_time, key, x, t),
        ("time_vu64", V::VU64(x)) => with_tags!(statsd_time, key, x.clone(), t),
        ("time_vdur", V::VDur(x)) => with_tags!(statsd_time, key, x.clone(), t),
        ("gauge_u64", V::U64(x)) => with_tags!(statsd_gauge, key, x, t),
        ("gauge_f64", V::F64(x)) => with_tags!(statsd_gauge, key, x, t),
        ("meter_u64", V::U64(x)) => with_tags!(statsd_meter, key, x, t),
        ("histogram_u64", V::U64(x)) => with_tags!(statsd_histogram, key, x, t),
        ("histogram_f64", V::F64(x)) => with_tags!(statsd_histogram, key, x, t),
        ("histogram_dur", V::Dur(x)) => with_tags!(statsd_histogram, key, x, t),
        ("histogram_vu64", V::VU64(x)) => with_tags!(statsd_histogram, key, x.clone(), t),
        ("histogram_vf64", V::VF64(x)) => with_tags!(statsd_histogram, key, x.clone(), t),
        ("histogram_vdur", V::VDur(x)) => with_tags!(statsd_histogram, key, x.clone(), t),
        ("distribution_u64", V::U64(x)) => with_tags!(statsd_distribution, key, x, t),
        ("distribution_f64", V::F64(x)) => with_tags!(statsd_distribution, key, x, t),
        ("distribution_vu64", V::VU64(x)) => with_tags!(statsd_distribution, key, x.clone(), t),
        ("distribution_vf64", V::VF64(x)) => with_tags!(statsd_distribution, key, x.clone(), t),
        ("set_i64", V::I64(x)) => with_tags!(statsd_set, key, x, t),
        (e, v) => panic!("harness: no macro for entry {} with {:?}", e, v),
    }
}

pub const MACRO_ENTRIES: [&str; 22] = [
    "count_i64", "count_i32", "count_u64", "count_u32", "time_u64", "time_dur", "time_vu64", "time_vdur", "gauge_u64",
    "gauge_f64", "meter_u64", "histogram_u64", "histogram_f64", "histogram_dur", "histogram_vu64", "histogram_vf64",
    "histogram_vdur", "distribution_u64", "distribution_f64", "distribution_vu64", "distribution_vf64", "set_i64",
];

/// One process = one global-client configuration. Shapes come from TLC (--in) or are generated
/// from the seed; `--unset` leaves the global client unset (every macro must then panic).
pub fn macro_child(a: &Args) {
    let seed = a.num("seed", 1);
    let ncalls = a.num("calls", 30);
    let unset = a.has("unset");
    // --late-set: the first macro calls run while the global client is unset (each must panic), then the global
    // client is set and the same thread goes on: from then on no macro may panic
    let late = if a.has("late-set") { 3usize } else { 0 };
    let t = Trace::create(&a.req("out"));
    let mut rng = StdRng::seed_from_u64(seed ^ 0x3ac0_0005);
    let shapes: Vec<Value> = a
        .get("in")
        .map(|p| std::fs::read_to_string(p).unwrap().lines().filter(|l| !l.trim().is_empty()).map(|l| serde_json::from_str(l).unwrap()).collect())
        .unwrap_or_default();
    // the configuration of this process
    let cfg = if let Some(s) = shapes.first() {
        shape_to_call(s).0
    } else {
        let mut base = rand_str(&mut rng, false);
        // dots elsewhere in the prefix are ordinary characters: only TRAILING dots are removed
        match rng.random_range(0..6) { 0 => base.insert(0, '.'), 1 => base.insert_str(0, ".."), 2 => base.insert(base.chars().next().map(|c| c.len_utf8()).unwrap_or(0), '.'), _ => {} }
        if rng.random_bool(0.2) { base.clear(); }
        let nd = rng.random_range(0..3);
        Cfg {
            ndots: if base.is_empty() { 0 } else { rng.random_range(0..3) },
            base,
            dtags: (0..nd).map(|_| Tag { k: if rng.random_bool(0.5) { Some(rand_str(&mut rng, false)) } else { None }, v: rand_str(&mut rng, false) }).collect(),
            dcid: if rng.random_bool(0.4) { Some(rand_str(&mut rng, false)) } else { None },
            handler: rng.random_bool(0.8),
        }
    };
    let sink = RecSink(Arc::new(Mutex::new(SinkState::default())));
    let ehlog = Arc::new(Mutex::new(vec![]));
    t.ev(cfg_event(&cfg, json!({"macro_process": seed, "global_set": !unset, "late_set": late})));
    let set_global = |sink: &RecSink, ehlog: &Arc<Mutex<Vec<Value>>>| {
        cadence_macros::set_global_default(build_client(&cfg, sink.clone(), ehlog.clone()));
        let other = RecSink(Arc::new(Mutex::new(SinkState::default())));
        cadence_macros::set_global_default(StatsdClient::from_sink("other", other));
    };
    if !unset && late > 0 {
        // set later, inside the call loop
    } else if !unset {
        cadence_macros::set_global_default(build_client(&cfg, sink.clone(), ehlog.clone()));
        // a second set must be ignored (C18 at API level): it would change prefix and sink
        let other = RecSink(Arc::new(Mutex::new(SinkState::default())));
        cadence_macros::set_global_default(StatsdClient::from_sink("other", other));
    }
    let prefuse = [0.0, 0.3][rng.random_range(0..2)];
    let mut calls: Vec<Call> = shapes.iter().filter(|s| shape_to_call(s).0.prefix() == cfg.prefix()).map(|s| shape_to_call(s).1).collect();
    if calls.is_empty() {
        // boundary sweep first (never left to the seed): every macro entry with every boundary value of its value class
        for entry in MACRO_ENTRIES.iter() {
            let (_, class) = entry_info(entry);
            for val in boundary_vals(class) {
                calls.push(Call {
                    entry: entry.to_string(),
                    form: "macro".into(),
                    key: "b".into(),
                    val,
                    rate: None,
                    tags: if calls.len() % 2 == 0 { vec![] } else { vec![Tag { k: Some("bk".into()), v: "bv".into() }] },
                    cid: None,
                    ts: None,
                    order: 0,
                    clean: true,
                });
            }
        }
        for _ in 0..ncalls {
            let entry = MACRO_ENTRIES[rng.random_range(0..MACRO_ENTRIES.len())];
            let (_, class) = entry_info(entry);
            let nt = rng.random_range(0..4);
            calls.push(Call {
                entry: entry.to_string(),
                form: "macro".into(),
                key: { let mut k = rand_str(&mut rng, false); if k.is_empty() { k.push('k'); } k },
                val: rand_val(&mut rng, class, true),
                rate: None,
                tags: (0..nt).map(|_| Tag { k: Some(rand_str(&mut rng, false)), v: rand_str(&mut rng, false) }).collect(),
                cid: None,
                ts: None,
                order: 0,
                clean: true,
            });
        }
    }
    let mut n = 0;
    let mut is_set = !unset && late == 0;
    for c in &calls {
        if !unset && !is_set && n == late {
            set_global(&sink, &ehlog);
            is_set = true;
        }
        n += 1;
        let mut c = c.clone();
        c.form = "macro".into();
        sink.0.lock().unwrap().script.push_back(if rng.random_bool(prefuse) { Some(io::ErrorKind::ConnectionRefused) } else { None });
        t.ev(call_event(&c, is_set));
        sink.0.lock().unwrap().events.clear();
        ehlog.lock().unwrap().clear();
        EVALS.with(|e| e.set(0));
        let r = catch_unwind(AssertUnwindSafe(|| macro_call(&c)));
        let evals = EVALS.with(|e| e.get());
        let mut badfloat = 0;
        for mut e in sink.0.lock().unwrap().events.drain(..) {
            if e["ev"] == "emit" {
                let raw = e["text"].as_str().unwrap().to_string();
                let (nrm, b) = normalise_floats(&raw, &c);
                badfloat += b;
                with_vals(&mut e, &nrm, &c);
                e["text"] = json!(nrm);
            }
            t.ev(e);
        }
        for e in ehlog.lock().unwrap().drain(..) {
            t.ev(e);
        }
        sink.0.lock().unwrap().script.clear();
        t.ev(json!({"ev":"end","panicked":r.is_err(),"has":false,"ok":false,"text":"","kind":"","srckind":"","srcmsg":"",
            "badfloat":badfloat,"standalone":"","hasstandalone":false,"evals":evals,"args":2 + 2 * c.tags.len()}));
    }
    t.finish();
    summary(json!({"engine":"macro-child","seed":seed,"unset":unset,"calls":n,"events":t.count()}));
}

// ------------------------------------------------------------------ C02: boundary classes at real scale
/// The closed formulas of spec/Values.tla (checked by TLC against brute force at reduced word size)
/// instantiated with MaxU = u64::MAX, NsPerS = 10^9, NsPerMs = 10^6.
fn largest_accepted(unit_ns: u64) -> Duration {
    let per = 1_000_000_000u64 / unit_ns; // units per second
    Duration::new(u64::MAX / per, ((u64::MAX % per) * unit_ns + (unit_ns - 1)) as u32)
}
fn succ(d: Duration) -> Duration {
    if d.subsec_nanos() + 1 < 1_000_000_000 {
        Duration::new(d.as_secs(), d.subsec_nanos() + 1)
    } else {
        Duration::new(d.as_secs() + 1, 0)
    }
}

pub fn values_replay(a: &Args) {
    let t = Trace::create(&a.req("out"));
    let cfg = Cfg { base: "v".into(), ndots: 0, dtags: vec![], dcid: None, handler: true };
    let sink = RecSink(Arc::new(Mutex::new(SinkState::default())));
    let ehlog = Arc::new(Mutex::new(vec![]));
    let client = build_client(&cfg, sink.clone(), ehlog.clone());
    t.ev(cfg_event(&cfg, json!({"values": true})));
    let mut n = 0u64;
    let mut classes = vec![];
    let mut divs = vec![];
    let mut go = |entry: &str, val: V, form: &str, label: String, expect_valid: Option<bool>| {
        let call = Call { entry: entry.into(), form: form.into(), key: "k".into(), val, rate: None, tags: vec![], cid: None, ts: None, order: 0, clean: true };
        // the model's classification of the class must agree with the independent 128-bit oracle
        if let Some(ev) = expect_valid {
            if ev != expect_vals(&call.entry, &call.val).is_some() {
                divs.push(json!({"class": label, "model_valid": ev}));
            }
        }
        run_call(&t, &client, &sink, &ehlog, &call, &cfg);
        n += 1;
        if classes.len() < 400 {
            classes.push(label);
        }
    };
    for (unit_ns, single, packed) in [(1_000_000u64, "time_dur", "time_vdur"), (1u64, "histogram_dur", "histogram_vdur")] {
        let la = largest_accepted(unit_ns);
        let fr = succ(la);
        let cls: Vec<(&str, Duration, bool)> = vec![
            ("zero", Duration::new(0, 0), true),
            ("one_ns_below_unit", Duration::new(0, (unit_ns - 1).max(0) as u32), true),
            ("exactly_one_unit", Duration::new(0, unit_ns as u32), true),
            ("one_ns_above_unit", Duration::new(0, unit_ns as u32 + 1), true),
            ("one_second_minus_1ns", Duration::new(0, 999_999_999), true),
            ("largest_accepted", la, true),
            ("largest_accepted_minus_1ns", Duration::new(la.as_secs(), la.subsec_nanos() - 1), true),
            ("first_rejected", fr, false),
            ("first_rejected_plus_1unit", Duration::new(fr.as_secs(), fr.subsec_nanos()) + Duration::from_nanos(unit_ns), false),
            ("max_duration", Duration::new(u64::MAX, 999_999_999), false),
            ("max_seconds_only", Duration::new(u64::MAX, 0), false),
        ];
        for (name, d, valid) in &cls {
            for form in ["plain", "tagged", "quiet"] {
                go(single, V::Dur(*d), form, format!("{}:{}:{}", single, name, form), Some(*valid));
            }
            // the class at every position of a packed list of 1..3 elements
            for len in 1..=3usize {
                for pos in 0..len {
                    let mut v = vec![Duration::new(1, 1); len];
                    v[pos] = *d;
                    go(packed, V::VDur(v), ["plain", "tagged", "quiet"][pos % 3], format!("{}:{}:len{}pos{}", packed, name, len, pos), Some(*valid));
                }
            }
        }
    }
    // integer widths: the extremes of every accepted type, through every entry point that takes it
    for (entry, _k, class) in ENTRIES.iter() {
        let vals: Vec<V> = match *class {
            "i64" => vec![V::I64(i64::MIN), V::I64(i64::MAX), V::I64(-1), V::I64(0), V::I64(i32::MIN as i64 - 1), V::I64(u32::MAX as i64 + 1)],
            "i32" => vec![V::I32(i32::MIN), V::I32(i32::MAX), V::I32(-1), V::I32(0)],
            "u64" => vec![V::U64(u64::MAX), V::U64(0), V::U64(i64::MAX as u64 + 1), V::U64(u32::MAX as u64 + 1), V::U64(9_999_999_999_999_999_999), V::U64(10_000_000_000_000_000_000)],
            "u32" => vec![V::U32(u32::MAX), V::U32(0), V::U32(i32::MAX as u32 + 1)],
            "vu64" => vec![V::VU64(vec![u64::MAX, 0, 1]), V::VU64(vec![0, u64::MAX]), V::VU64(vec![]), V::VU64((0..1000).map(|i| i * 7).collect())],
            "f64" => vec![V::F64(0.0), V::F64(-0.0), V::F64(f64::MIN_POSITIVE), V::F64(f64::from_bits(1)), V::F64(f64::MAX), V::F64(f64::MIN), V::F64(1e300), V::F64(0.1 + 0.2), V::F64(1.0 / 3.0), V::F64(5e-324), V::F64(2f64.powi(53) + 2.0), V::F64(f64::NAN), V::F64(f64::INFINITY), V::F64(f64::NEG_INFINITY), V::F64(1e21), V::F64(1e-7)],
            "vf64" => vec![V::VF64(vec![0.1, 0.2, 0.30000000000000004]), V::VF64(vec![]), V::VF64(vec![f64::MAX, f64::MIN_POSITIVE, -0.0])],
            _ => vec![],
        };
        for v in vals {
            for form in ["plain", "tagged", "quiet"] {
                go(entry, v.clone(), form, format!("{}:{:?}", entry, v).chars().take(60).collect(), None);
            }
        }
    }
    t.finish();
    summary(json!({"engine":"values-replay","calls":n,"events":t.count(),"model_divergences":divs.len(),"first_divergences":divs,
        "sample":{"timer_largest_accepted":format!("{:?}", largest_accepted(1_000_000)),"histogram_largest_accepted":format!("{:?}", largest_accepted(1)),"classes":classes.len()}}));
}

// ------------------------------------------------------------------ C20: hostile arguments to every public constructor
pub fn hostile_api(a: &Args) {
    use cadence::ext::MultiLineWriter;
    use cadence::{
        BufferedSpyMetricSink, BufferedUdpMetricSink, BufferedUnixMetricSink, NopMetricSink, QueuingMetricSink, SpyMetricSink,
        UdpMetricSink, UnixMetricSink,
    };
    use std::io::Write;
    use std::net::UdpSocket;
    use std::os::unix::net::UnixDatagram;
    let t = Trace::create(&a.req("out"));
    let cfg = Cfg { base: "".into(), ndots: 0, dtags: vec![], dcid: None, handler: false };
    t.ev(cfg_event(&cfg, json!({"hostile_api": true})));
    let mut n = 0u64;
    let mut npanic = 0u64;
    let mut names: Vec<String> = vec![];
    let mut attempt = |name: String, f: &mut dyn FnMut()| {
        n += 1;
        let r = catch_unwind(AssertUnwindSafe(|| f()));
        if r.is_err() {
            npanic += 1;
            t.ev(json!({"ev":"buildpanic","what":name,"msg":last_panic()}));
        }
        if names.len() < 40 {
            names.push(name);
        }
    };
    let long = "x".repeat(70_000);
    let metrics: Vec<String> = vec!["".into(), "a".into(), "é:1|c".into(), "\n".into(), "a\nb".into(), long.clone(), "日本語".repeat(100)];
    // line writer: tiny capacities, empty / long terminators
    for cap in [0usize, 1, 2, 3, 8] {
        for term in ["", "\n", "\r\n", "0123456789"] {
            attempt(format!("MultiLineWriter cap={} term={:?}", cap, term), &mut || {
                let mut w = MultiLineWriter::with_ending(Vec::<u8>::new(), cap, term);
                for l in [0usize, 1, 2, 3, 4, 9, 10, 11] {
                    let _ = w.write(&vec![b'm'; l]);
                    if l % 3 == 0 {
                        let _ = w.flush();
                    }
                }
                drop(w);
            });
        }
    }
    // spy sinks
    for chan in [None, Some(0usize), Some(1)] {
        for cap in [None, Some(0usize), Some(1), Some(5)] {
            attempt(format!("BufferedSpyMetricSink chan={:?} cap={:?}", chan, cap), &mut || {
                let (_rx, s) = BufferedSpyMetricSink::with_capacity(chan, cap);
                for m in &metrics {
                    let _ = s.emit(m);
                }
                let _ = s.flush();
                let _ = s.stats();
            });
        }
        attempt(format!("SpyMetricSink chan={:?}", chan), &mut || {
            let (_rx, s) = match chan { Some(c) => SpyMetricSink::with_capacity(c), None => SpyMetricSink::new() };
            for m in &metrics {
                let _ = s.emit(m);
            }
            let _ = s.flush();
        });
    }
    // queuing sink: tiny queues, hostile strings, handler
    for cap in [Some(0usize), Some(1), Some(2), None] {
        attempt(format!("QueuingMetricSink cap={:?}", cap), &mut || {
            let mut b = QueuingMetricSink::builder().with_error_handler(|_e| {});
            if let Some(c) = cap {
                b = b.with_capacity(c);
            }
            let q = b.build(NopMetricSink);
            let q2 = q.clone();
            for m in &metrics {
                let _ = q.emit(m);
                let _ = q2.emit(m);
            }
            let _ = (q.flush(), q.stats(), q.queued(), q.submitted(), q.drained(), q.panics());
            drop(q);
            let _ = q2.emit("after");
        });
    }
    // socket sinks: unusable addresses and paths, zero capacities, oversized datagrams
    for addr in ["127.0.0.1:9", "localhost:0", "", "not an address", "256.1.1.1:1", "[::1]:9"] {
        for cap in [0usize, 1, 512] {
            attempt(format!("udp sinks addr={:?} cap={}", addr, cap), &mut || {
                if let Ok(sock) = UdpSocket::bind("127.0.0.1:0") {
                    let _ = sock.set_nonblocking(true);
                    if let Ok(s) = UdpMetricSink::from(addr, sock.try_clone().unwrap()) {
                        for m in &metrics {
                            let _ = s.emit(m);
                        }
                        let _ = (s.flush(), s.stats());
                    }
                    if let Ok(s) = BufferedUdpMetricSink::with_capacity(addr, sock, cap) {
                        for m in &metrics {
                            let _ = s.emit(m);
                        }
                        let _ = (s.flush(), s.stats());
                    }
                }
            });
        }
    }
    for path in ["/nonexistent/dir/sock", "", "/tmp"] {
        for cap in [0usize, 1, 512] {
            attempt(format!("unix sinks path={:?} cap={}", path, cap), &mut || {
                if let Ok(sock) = UnixDatagram::unbound() {
                    let _ = sock.set_nonblocking(true);
                    let s = UnixMetricSink::from(path, sock.try_clone().unwrap());
                    for m in &metrics {
                        let _ = s.emit(m);
                    }
                    let _ = (s.flush(), s.stats());
                    let s = BufferedUnixMetricSink::with_capacity(path, sock, cap);
                    for m in &metrics {
                        let _ = s.emit(m);
                    }
                    let _ = (s.flush(), s.stats());
                }
            });
        }
    }
    // clients with extreme configuration, flush through every wrapper
    for p in ["", ".", "....", &long, "a\nb", "é"] {
        attempt(format!("StatsdClient prefix len {}", p.len()), &mut || {
            let (_rx, s) = BufferedSpyMetricSink::with_capacity(None, Some(16));
            let c = StatsdClient::builder(p, QueuingMetricSink::with_capacity(s, 1))
                .with_tag("", "")
                .with_tag_value("")
                .with_container_id("")
                .build();
            let _ = c.count("", 0);
            let _ = c.time("k", Duration::new(u64::MAX, 999_999_999));
            let _ = c.histogram("k", vec![0u64; 100_000]);
            let _ = c.gauge("k", f64::NAN);
            c.count_with_tags("k", i64::MIN).with_sampling_rate(f64::NAN).with_timestamp(u64::MAX).with_tag("", "").send();
            let _ = c.flush();
            let _ = format!("{:?}", c);
        });
    }
    t.finish();
    summary(json!({"engine":"hostile-api","attempts":n,"panics":npanic,"events":t.count(),"sample":names}));
}
