---------------------------- MODULE WriterTrace ----------------------------
(***************************************************************************)
(* TRACE SPECIFICATION (binding B, and the verdict for binding A): reads   *)
(* an NDJSON trace recorded from the real code (IOEnv.TRACE) and feeds     *)
(* every event to the property monitor WriterProp.  Byte strings are the   *)
(* lower-case hex strings of the trace, so TLA+ string concatenation is    *)
(* byte concatenation.  The monitor is total, therefore every line is      *)
(* consumed; what it flagged is printed as one VERDICT line.               *)
(***************************************************************************)
EXTENDS Naturals, Sequences, FiniteSets, TLC, Json, IOUtils

Rec == ndJsonDeserialize(IOEnv.TRACE)
HexLen(s) == Len(s) \div 2
P == INSTANCE WriterProp WITH Empty <- "", BLen <- HexLen

VARIABLES lk,     \* thread inside the sink's critical section (0 = nobody), from the lock hooks
          l,      \* next line of the trace
          mon,    \* property monitor (per run: re-initialised by every reset event)
          cnt,    \* I/O counter monitor (C14)
          run,    \* line of the reset event that started the current run
          bad     \* accumulated over all runs: <<property, rule, run line, event line>>, first per rule and run

vars == <<lk, l, mon, cnt, run, bad>>

Init == /\ l = 1 /\ run = 0 /\ bad = {} /\ lk = 0
        /\ mon = P!MonInit(0, "") /\ cnt = P!CntInit

E == Rec[l]
\* remember where every rule was first broken in every run (bounded, so a badly broken build stays cheap)
\* (bounded PER PROPERTY, so that a flood of flags of one property cannot hide another property's)
Note(b, vs) == b \cup { <<v[1], v[2], run, l>> : v \in { w \in vs : Cardinality({x \in b : x[1] = w[1]}) < 120 } }
Step(m2, c2) == /\ mon' = m2 /\ cnt' = c2
                /\ bad' = Note(bad, (m2.viol \ mon.viol) \cup (c2.viol \ cnt.viol))
                /\ l' = l + 1 /\ UNCHANGED <<run, lk>>

Reset == /\ E.ev = "reset"
         /\ mon' = P!MonInit(E.cap, E.term) /\ cnt' = P!CntInit
         /\ run' = l /\ l' = l + 1 /\ lk' = 0 /\ UNCHANGED bad
Call  == /\ E.ev = "call"  /\ Step(P!MonCall(mon, E.op, E.hex), cnt)
Att   == /\ E.ev = "att"   /\ E.hex # "?"
         /\ Step(P!MonAtt(mon, E.hex, E.ok, E.kind), P!CntAtt(cnt, E.hex, E.ok))
\* a refused attempt whose bytes could not be observed from outside the sink
AttHidden == /\ E.ev = "att" /\ E.hex = "?"
             /\ Step([mon EXCEPT !.fail = TRUE, !.failK = E.kind, !.faults = @ + 1],
                     [cnt EXCEPT !.erPk = @ + 1, !.erBy = @ + E.len])
\* C12: the lock hooks of the shared buffered sinks - critical sections never overlap
Lock   == /\ E.ev = "lock"
          /\ bad' = Note(bad, IF lk # 0 THEN {<<"C12", "critical-section-entered-while-another-thread-is-inside">>} ELSE {})
          /\ lk' = E.t /\ l' = l + 1 /\ UNCHANGED <<mon, cnt, run>>
Unlock == /\ E.ev = "unlock"
          /\ bad' = Note(bad, IF lk # E.t THEN {<<"C12", "critical-section-left-by-a-thread-that-is-not-inside">>} ELSE {})
          /\ lk' = 0 /\ l' = l + 1 /\ UNCHANGED <<mon, cnt, run>>
Ret   == /\ E.ev = "ret"   /\ Step(P!MonRet(mon, E.ok, E.n, E.kind),
                                   P!CntRet(cnt, mon.cap = 0 /\ mon.term = "", mon.mode = "emit", E.ok))
Panic == /\ E.ev = "panic" /\ Step(P!MonPanic(mon), cnt)
Stats == /\ E.ev = "stats" /\ Step(mon, P!CntStats(cnt, E.bs, E.ps, E.bd, E.pd))
\* C14 under heavy contention: the tallies of many threads on one unbuffered sink (Ok / Err results and bytes)
Bulk  == /\ E.ev = "bulk"
         /\ Step(mon, [cnt EXCEPT !.okPk = @ + E.okn, !.okBy = @ + E.okb, !.erPk = @ + E.ern, !.erBy = @ + E.erb,
                                  !.okRet = @ + E.okn, !.erRet = @ + E.ern, !.unbuf = TRUE])
\* implementation-state snapshots are for the replay comparison, not for the monitor
Skip  == /\ E.ev \in {"st", "note"} /\ Step(mon, cnt)

Next == l <= Len(Rec) /\ (Reset \/ Call \/ Att \/ AttHidden \/ Ret \/ Panic \/ Stats \/ Skip \/ Lock \/ Unlock \/ Bulk)
Spec == Init /\ [][Next]_vars

\* printed exactly once, in the state that has consumed the whole trace
Verdict == l = Len(Rec) + 1 =>
             PrintT(<<"VERDICT", ToJson([consumed |-> l - 1, total |-> Len(Rec), bad |-> bad])>>)
\* every line must have been consumed (one state per line plus the initial state)
Consumed == TLCGet("stats").diameter - 1 = Len(Rec)
=============================================================================
