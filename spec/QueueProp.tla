---------------------------- MODULE QueueProp ----------------------------
(***************************************************************************)
(* PROPERTY MONITOR for cadence::QueuingMetricSink (C08 C09 C10 C11 C15    *)
(* C16).  It sees OBSERVABLE events only, each stamped by the order in     *)
(* which it was logged (one mutex, per-process sequence number):           *)
(*   ecall(h,m,t)  emit(m) starts on handle h in thread t                  *)
(*   eret(m,ok,n,msg)  that emit returned Ok(n) / Err(msg)                 *)
(*   epanic(m) / ehang(m)  the emit unwound / did not return in time       *)
(*   wenter(m,t)   the wrapped sink's emit was entered with string m       *)
(*   wleave(m,o,msg)  it finished with o in ok / err / panic               *)
(*   eh(msg,t)     the error handler of the queuing sink was invoked       *)
(*   clone(h,h2)   drop begin/end(h)   wdropped (wrapped sink's own Drop)  *)
(*   sample(s,d,q,p) counters read as  q = queued(); s = submitted();      *)
(*                   d = drained(); p = panics()  by one thread            *)
(*   quiesce(s,d,q,p) the same, read after all producers returned and the  *)
(*                   sink was given time to drain (bounded liveness)       *)
(*   end(released,exited) after the last drop and a generous wait          *)
(* The rules are written for FREE-RUNNING concurrent traces: wherever the  *)
(* exact moment of the enqueue/dequeue is not observable they leave the    *)
(* slack that any linearisation allows, so a correct sink can never be     *)
(* flagged.  Metrics are unique strings.                                   *)
(***************************************************************************)
EXTENDS Naturals, Integers, Sequences, FiniteSets

CONSTANT NoM            \* "no metric" (the model numbers metrics, traces carry strings)
UNBOUNDED == 1000000

QInit(cap, hasEH) ==
  [ cap |-> cap, hasEH |-> hasEH,
    calls    |-> {},      \* metrics whose emit has started
    okret    |-> {},      \* metrics whose emit returned Ok
    refused  |-> {},      \* metrics whose emit returned Err
    deliv    |-> {},      \* metrics that entered the wrapped sink
    \* per metric in flight, captured when its emit started (dropped again when no longer needed,
    \* which keeps the monitor a function of "what happened", not of event positions):
    okAtCall  |-> <<>>,   \* metric -> accepted metrics that had already returned at that moment
    delAtCall |-> <<>>,   \* metric -> metrics that had already been delivered at that moment
    emitting |-> <<>>,    \* metric -> thread, for emit calls in progress
    inSink  |-> NoM,      \* metric currently inside the wrapped sink
    sinkTid |-> 0,
    pendErr |-> "",       \* error returned by the wrapped sink and not yet seen by the handler
    handles |-> {1}, dropping |-> {},
    drivers |-> {},       \* threads that called emit / drop
    npanic  |-> 0, released |-> FALSE,
    sbOk |-> 0, sbDel |-> 0,  \* accepted / delivered counts when the sampler began to read
    bulkOk |-> 0, bulkDel |-> 0,  \* tallies of a high-contention phase that is not logged event by event
    viol |-> {} ]

Flag(q, v) == [q EXCEPT !.viol = @ \cup v]
Has(f, k)  == k \in DOMAIN f
Put(f, k, v) == [x \in DOMAIN f \cup {k} |-> IF x = k THEN v ELSE f[x]]
Del(f, k)  == [x \in DOMAIN f \ {k} |-> f[x]]

OkRet(q)      == q.okret
Delivered(q)  == q.deliv
Undelivered(q) == q.okret \ q.deliv

(* ---- emit ---------------------------------------------------------------- *)
QECall(q, h, m, t) ==
  LET v == (IF h \notin q.handles THEN {<<"C08", "harness-error-emit-on-dead-handle">>} ELSE {})
           \cup (IF m \in q.calls THEN {<<"C08", "harness-error-duplicate-metric">>} ELSE {})
  IN [Flag(q, v) EXCEPT !.calls = @ \cup {m}, !.drivers = @ \cup {t}, !.emitting = Put(@, m, t),
                        !.okAtCall = Put(@, m, q.okret), !.delAtCall = Put(@, m, q.deliv)]

\* metrics that may have been in the queue at some moment of m's emit call: started by now, never
\* refused, not delivered before the call began
MaxQ(q, m) == Cardinality({x \in q.calls : x # m /\ x \notin q.refused /\ x \notin q.delAtCall[m]})
\* metrics that were certainly accepted before the call and certainly not dequeued before its end
MinQ(q, m) == Cardinality({x \in q.okAtCall[m] : x # m /\ x \notin q.deliv})

QERet(q, m, ok, n, msg, len) ==
  LET known == Has(q.okAtCall, m) /\ Has(q.delAtCall, m)
      q1 == [q EXCEPT !.okret = IF ok THEN @ \cup {m} ELSE @, !.refused = IF ok THEN @ ELSE @ \cup {m},
                      !.emitting = IF Has(@, m) THEN Del(@, m) ELSE @,
                      !.delAtCall = IF known THEN Del(@, m) ELSE @,
                      \* okAtCall is still needed for the order rule until m is delivered
                      !.okAtCall = IF known /\ (~ok \/ m \in q.deliv) THEN Del(@, m) ELSE @]
      v  == (IF ~known THEN {<<"C08", "harness-error-return-without-call">>} ELSE {})
            \* C10: the result depends on queue room only
            \cup (IF ok /\ n # len THEN {<<"C10", "emit-ok-with-wrong-length">>} ELSE {})
            \cup (IF ~ok /\ known /\ q.cap # UNBOUNDED /\ MaxQ(q, m) < q.cap
                  THEN {<<"C10", "refused-although-the-queue-had-room">>} ELSE {})
            \cup (IF ~ok /\ q.cap = UNBOUNDED THEN {<<"C10", "unbounded-queue-refused-a-metric">>} ELSE {})
            \cup (IF ok /\ known /\ q.cap # UNBOUNDED /\ MinQ(q, m) > q.cap
                  THEN {<<"C10", "accepted-although-the-queue-was-full">>} ELSE {})
            \cup (IF ok /\ q.cap # UNBOUNDED /\ Cardinality(Undelivered(q1)) > q.cap + 1
                  THEN {<<"C10", "more-metrics-queued-than-the-capacity">>} ELSE {})
            \* while the worker is inside the wrapped sink it holds no other metric: everything undelivered is in the queue
            \cup (IF ok /\ q.cap # UNBOUNDED /\ q.inSink # NoM /\ Cardinality(Undelivered(q1)) > q.cap
                  THEN {<<"C10", "more-metrics-queued-than-the-capacity-while-the-worker-is-busy">>} ELSE {})
            \* C10: errors of the wrapped sink never surface in an emit result
            \cup (IF ~ok /\ msg \notin {"channel full", "channel disconnected"}
                  THEN {<<"C10", "emit-error-is-not-a-queue-error">>} ELSE {})
            \* C08: a refused metric must never reach the wrapped sink
            \cup (IF ~ok /\ m \in q.deliv THEN {<<"C08", "refused-metric-was-delivered">>} ELSE {})
  IN Flag(q1, v)

\* any other method of the wrapped sink (flush, stats) was entered on thread t: legitimate when the caller asked for
\* flush()/stats() itself, never while that thread is inside emit (C10: emit never runs the wrapped sink on the caller's thread)
QWOther(q, t) ==
  Flag(q, IF \E m \in DOMAIN q.emitting : q.emitting[m] = t
          THEN {<<"C10", "emit-ran-the-wrapped-sink-on-the-caller-thread">>} ELSE {})

QEPanic(q, m) == Flag(q, {<<"C10", "panic-unwound-into-the-caller">>, <<"C20", "panic-in-emit">>})
QEHang(q, m)  == Flag(q, {<<"C10", "emit-did-not-return-while-the-wrapped-sink-was-blocked">>})

(* ---- wrapped sink --------------------------------------------------------- *)
QWEnter(q, m, t) ==
  LET started == m \in q.calls
      v == (IF ~started THEN {<<"C08", "delivered-a-string-nobody-emitted">>} ELSE {})
           \cup (IF m \in q.deliv THEN {<<"C08", "delivered-twice">>}
                                        \cup (IF q.npanic > 0 THEN {<<"C11", "redelivered-after-panic">>} ELSE {})
                 ELSE {})
           \cup (IF m \in q.refused THEN {<<"C08", "refused-metric-was-delivered">>} ELSE {})
           \cup (IF q.inSink # NoM THEN {<<"C08", "wrapped-sink-invocations-overlap">>} ELSE {})
           \* order: nothing accepted strictly before m's emit began may still be waiting
           \cup (IF Has(q.okAtCall, m) /\ (q.okAtCall[m] \ (q.deliv \cup {m})) # {}
                 THEN {<<"C08", "delivered-out-of-acceptance-order">>}
                      \cup (IF q.npanic > 0 THEN {<<"C11", "order-lost-after-panic">>} ELSE {})
                 ELSE {})
           \* C10: never on a caller's thread
           \cup (IF t \in q.drivers THEN {<<"C10", "wrapped-sink-ran-on-a-caller-thread">>} ELSE {})
           \* C16: the handler sees an error before the next metric is processed
           \cup (IF q.pendErr # "" /\ q.hasEH THEN {<<"C16", "handler-not-invoked-before-next-metric">>} ELSE {})
           \cup (IF q.released THEN {<<"C09", "delivery-after-the-wrapped-sink-was-released">>} ELSE {})
  IN [Flag(q, v) EXCEPT !.deliv = @ \cup {m}, !.inSink = m, !.sinkTid = t, !.pendErr = "",
                        !.okAtCall = IF Has(@, m) /\ (m \in q.okret \/ m \in q.refused) THEN Del(@, m) ELSE @]

QWLeave(q, m, o, msg) ==
  LET v == IF q.inSink # m THEN {<<"C08", "harness-error-leave-without-enter">>} ELSE {}
  IN [Flag(q, v) EXCEPT !.inSink = NoM, !.pendErr = IF o = "err" THEN msg ELSE "",
                        !.npanic = IF o = "panic" THEN @ + 1 ELSE @]

\* a thread is about to call flush() / stats() on a handle: it is a thread that USES the sink (like every emitting thread);
\* the wrapped sink's emit and the error handler must never run on such a thread (C10, C16: "on the background thread")
QFCall(q, t) == [q EXCEPT !.drivers = @ \cup {t}]

QEH(q, msg, t) ==
  LET v == (IF q.pendErr = "" THEN {<<"C16", "handler-invoked-without-a-failure-or-twice">>}
            ELSE IF q.pendErr # msg THEN {<<"C16", "handler-got-a-different-error">>} ELSE {})
           \cup (IF t # q.sinkTid THEN {<<"C16", "handler-not-on-the-background-thread">>} ELSE {})
           \cup (IF t \in q.drivers THEN {<<"C16", "handler-ran-on-a-thread-that-uses-the-sink">>} ELSE {})
           \cup (IF q.inSink # NoM THEN {<<"C16", "handler-invoked-while-the-sink-is-running">>} ELSE {})
  IN [Flag(q, v) EXCEPT !.pendErr = ""]

(* ---- handles --------------------------------------------------------------- *)
QClone(q, h, h2) == [q EXCEPT !.handles = @ \cup {h2}]
QDropBegin(q, h, t) == [q EXCEPT !.handles = @ \ {h}, !.dropping = @ \cup {h}, !.drivers = @ \cup {t}]
QDropEnd(q, h, panicked) ==
  LET v == IF panicked THEN {<<"C09", "drop-panicked">>, <<"C20", "panic-in-drop">>} ELSE {}
  IN [Flag(q, v) EXCEPT !.dropping = @ \ {h}]
QDropHang(q, h) == Flag(q, {<<"C09", "drop-blocked">>})

QWDropped(q) ==
  LET v == (IF q.handles # {} THEN {<<"C09", "wrapped-sink-released-while-handles-are-alive">>,
                                    <<"C08", "wrapped-sink-released-while-handles-are-alive">>} ELSE {})
           \cup (IF q.inSink # NoM THEN {<<"C09", "wrapped-sink-released-while-it-is-running">>} ELSE {})
           \cup (IF Undelivered(q) # {}
                 THEN {<<"C09", "released-before-the-queue-was-drained">>, <<"C08", "accepted-metric-never-delivered">>}
                      \cup (IF q.npanic > 0 THEN {<<"C11", "metric-lost-after-panic">>} ELSE {})
                 ELSE {})
  IN [Flag(q, v) EXCEPT !.released = TRUE]

(* ---- counters -------------------------------------------------------------- *)
\* valid at ANY moment: sbegin is logged before the sampler reads q, then s, d, p; sample after.
\* Lower bounds refer to what had been logged when it began, upper bounds to what is logged now.
QSampleBegin(q) == [q EXCEPT !.sbOk = Cardinality(q.okret), !.sbDel = Cardinality(q.deliv)]
QSample(q, s, d, qd, p) ==
  LET calls == Cardinality(q.calls)
      v == (IF qd > s THEN {<<"C15", "queued-exceeds-submitted-or-wrapped-around">>} ELSE {})
           \cup (IF s > calls THEN {<<"C15", "submitted-exceeds-the-emits-started">>} ELSE {})
           \cup (IF s < q.sbOk THEN {<<"C15", "submitted-misses-an-accepted-emit">>} ELSE {})
           \cup (IF d < q.sbDel THEN {<<"C15", "drained-misses-a-delivered-metric">>} ELSE {})
           \cup (IF d > Cardinality(Delivered(q)) + 1 THEN {<<"C15", "drained-exceeds-the-metrics-dequeued">>} ELSE {})
           \cup (IF p > q.npanic THEN {<<"C11", "panic-count-too-high">>} ELSE {})
  IN Flag(q, v)

\* reading the counters panicked
QSamplePanic(q) == Flag(q, {<<"C20", "panic-while-reading-the-counters">>, <<"C15", "queued-wrapped-around-and-panicked">>})

\* a high-contention phase: many threads emitted at once, each counted its own Ok results, the wrapped sink counted
\* what it was handed; only the totals are recorded (C15 "exact under any concurrency", at quiescence)
\* emit latencies measured while the wrapped sink is held blocked (gate closed): the quickest of nref refused and of nok
\* accepted calls, in microseconds. emit "returns promptly even while the wrapped sink is blocked indefinitely" (C10): with
\* three or more calls of a kind, not even the quickest taking 20 ms means emit waits (for room, for the worker, for a timeout)
QLatency(q, nref, minref, nok, minok) ==
  Flag(q, (IF nref >= 3 /\ minref > 20000 THEN {<<"C10", "every-refused-emit-waited-while-the-wrapped-sink-was-blocked">>} ELSE {})
          \cup (IF nok >= 3 /\ minok > 20000 THEN {<<"C10", "every-accepted-emit-waited-while-the-wrapped-sink-was-blocked">>} ELSE {}))

\* the quickest of n stopping drops made while the wrapped sink was held blocked and the queue full (C09: never blocks)
QDropLatency(q, n, min) ==
  Flag(q, IF n >= 3 /\ min > 50000 THEN {<<"C09", "every-stopping-drop-waited-while-the-wrapped-sink-was-blocked">>} ELSE {})

\* tallies of a contention phase (nothing logged per call): accepted, handed over, refused
QBulk(q, okn, deln, refn) ==
  [Flag(q, IF q.cap = UNBOUNDED /\ refn > 0 THEN {<<"C10", "unbounded-queue-refused-a-metric">>} ELSE {})
   EXCEPT !.bulkOk = @ + okn, !.bulkDel = @ + deln]

\* after every producer returned and the sink had time to drain, handles still alive
QQuiesce(q, s, d, qd, p) ==
  LET acc == Cardinality(OkRet(q)) + q.bulkOk
      del == Cardinality(Delivered(q)) + q.bulkDel
      v == (IF s # acc THEN {<<"C15", "submitted-differs-from-accepted-emits">>} ELSE {})
           \cup (IF d # del THEN {<<"C15", "drained-differs-from-delivered-metrics">>} ELSE {})
           \cup (IF qd # s - d \/ s < d THEN {<<"C15", "queued-is-not-the-difference">>} ELSE {})
           \cup (IF p # q.npanic THEN {<<"C11", "panic-count-wrong">>} ELSE {})
           \cup (IF q.bulkOk # q.bulkDel /\ q.handles # {} THEN {<<"C08", "accepted-metric-not-delivered-in-bulk-phase">>} ELSE {})
           \cup (IF Undelivered(q) # {} /\ q.handles # {}
                 THEN {<<"C08", "accepted-metric-not-delivered">>}
                      \cup (IF q.npanic > 0 THEN {<<"C11", "metric-lost-after-panic">>} ELSE {})
                 ELSE {})
           \cup (IF q.pendErr # "" /\ q.hasEH THEN {<<"C16", "handler-never-invoked">>} ELSE {})
  IN Flag(q, v)

\* after the last drop and a generous wait
QEnd(q, released, exited) ==
  LET v == IF q.handles # {} THEN {} ELSE
           (IF Undelivered(q) # {}
            THEN {<<"C09", "accepted-metric-not-delivered-after-last-drop">>, <<"C08", "accepted-metric-never-delivered">>}
                 \cup (IF q.npanic > 0 THEN {<<"C11", "metric-lost-after-panic">>} ELSE {})
            ELSE {})
           \cup (IF ~exited THEN {<<"C09", "background-thread-did-not-terminate">>} ELSE {})
           \cup (IF ~released THEN {<<"C09", "wrapped-sink-not-released">>} ELSE {})
  IN Flag(q, v)
=============================================================================
