SPECIFICATION LiveSpec
CONSTANTS
  QCap = 2
  Cap = 5
  MaxMetrics = 4
  Lens = {1, 3, 6}
  Bug = "none"
INVARIANTS Framing NoDupNoAlien EndToEnd FlushEmpties HandOverOrder
PROPERTY Eventually
CHECK_DEADLOCK FALSE
