---------------------------- MODULE HolderTrace ----------------------------
(***************************************************************************)
(* TRACE SPECIFICATION for the global client holder: shim events (atomic   *)
(* operations with the Ordering the source passed, cell accesses) and API  *)
(* calls recorded from the real code are interpreted by HolderProp.  The   *)
(* recorded runs are sequentially consistent, so every load reads the last *)
(* write; whether the happens-before edges the source asked for suffice is *)
(* decided by the vector clocks of the monitor.                            *)
(***************************************************************************)
EXTENDS Naturals, Sequences, FiniteSets, TLC, Json, IOUtils

Rec == ndJsonDeserialize(IOEnv.TRACE)
TT == 1..8
P == INSTANCE HolderProp WITH T <- TT

VARIABLES l, mon, run, bad
vars == <<l, mon, run, bad>>
Init == l = 1 /\ run = 0 /\ bad = {} /\ mon = P!HInit
E == Rec[l]
\* (bounded PER PROPERTY, so that a flood of flags of one property cannot hide another property's)
Note(b, vs) == b \cup { <<v[1], v[2], run, l>> : v \in { w \in vs : Cardinality({x \in b : x[1] = w[1]}) < 120 } }
Step(m2) == /\ mon' = m2 /\ bad' = Note(bad, m2.viol \ mon.viol) /\ l' = l + 1 /\ UNCHANGED run
Last == Len(mon.mo)

Reset == /\ E.ev = "reset" /\ mon' = P!HInit /\ run' = l /\ l' = l + 1 /\ UNCHANGED bad
Cas   == /\ E.ev = "cas"
         /\ Step(IF E.ok THEN P!HCasOk(mon, E.t, E.so, E.new) ELSE P!HLoad(mon, E.t, E.fo, Last))
Store == E.ev = "store" /\ Step(P!HStore(mon, E.t, E.o, E.val))
Load  == E.ev = "load"  /\ Step(P!HLoad(mon, E.t, E.o, Last))
CW    == E.ev = "cellw" /\ Step(P!HCellW(mon, E.t))
CR    == E.ev = "cellr" /\ Step(P!HCellR(mon, E.t))
Call  == /\ E.ev = "call"
         /\ Step(IF E.op = "set" THEN P!HCallSet(mon, E.t, E.id) ELSE P!HCallRead(mon, E.t))
Ret   == /\ E.ev = "ret"
         /\ Step(CASE E.r = "panic" -> P!HRetPanic(mon, E.t)
                   [] E.op = "set" -> P!HRetSet(mon, E.t, E.id)
                   [] E.r \in {"some", "true"} -> P!HRetSome(mon, E.t, E.id)
                   [] OTHER -> P!HRetNone(mon, E.t))
Skip  == E.ev \in {"note", "step"} /\ Step(mon)
Next == l <= Len(Rec) /\ (Reset \/ Cas \/ Store \/ Load \/ CW \/ CR \/ Call \/ Ret \/ Skip)
Spec == Init /\ [][Next]_vars
Verdict == l = Len(Rec) + 1 =>
             PrintT(<<"VERDICT", ToJson([consumed |-> l - 1, total |-> Len(Rec), bad |-> bad])>>)
Consumed == TLCGet("stats").diameter - 1 = Len(Rec)
=============================================================================
