SPECIFICATION Spec
CONSTANTS
  Cap = 3
  TLen = 1
  MaxLen = 5
  MaxFaults = 2
  MaxOps = 0
  Bug = "none"
  DropLate = FALSE
  Hist = FALSE
INVARIANTS NoViolation FillWithinCapacity NoAutoFlush PendIsBuffer
CHECK_DEADLOCK FALSE
