---------------------------- MODULE LineGrammar ----------------------------
(***************************************************************************)
(* THE DogStatsD LINE GRAMMAR of property C01 (and the decoration rule of  *)
(* C04), written once, generic in the representation of strings: only      *)
(* concatenation (\o), Empty and the literal tokens Tk("...") are used, so *)
(* the same Render judges                                                  *)
(*   - character sequences over a tiny alphabet (Line.tla: TLC checks that *)
(*     an independent parser inverts it for every call shape), and         *)
(*   - the strings recorded from the real client (ClientTrace.tla).        *)
(*                                                                         *)
(*   <name>:<v1>[:<v2>...]|<type>[|@<rate>][|#<tag>,...][|c:<cid>][|T<ts>] *)
(***************************************************************************)
EXTENDS Naturals, Sequences

CONSTANTS Empty, Tk(_)

RECURSIVE JoinWith(_, _)
JoinWith(ss, sep) == IF ss = <<>> THEN Empty
                     ELSE IF Len(ss) = 1 THEN ss[1]
                     ELSE (ss[1] \o sep) \o JoinWith(Tail(ss), sep)

\* name: the key alone for an empty prefix, otherwise the prefix with its trailing dots removed,
\* one dot, then the key.  (base = the configured prefix without its trailing dots.)
Name(hasprefix, base, key) == IF hasprefix THEN (base \o Tk(".")) \o key ELSE key

TagStr(t) == IF t.bare THEN t.v ELSE (t.k \o Tk(":")) \o t.v
TagStrs(ts) == [i \in 1..Len(ts) |-> TagStr(ts[i])]

\* C04: client-wide tags first, in configuration order, then the call's own tags in call order;
\* a per-call container id replaces the client's for that call only
Decorate(cfg, call) ==
  [ hasprefix |-> cfg.hasprefix, base |-> cfg.base, key |-> call.key, vals |-> call.vals, kind |-> call.kind,
    rate |-> call.rate, tags |-> cfg.dtags \o call.tags,
    cid |-> IF call.cid.has THEN call.cid ELSE cfg.dcid, ts |-> call.ts ]

Render(c) ==
  ((((((Name(c.hasprefix, c.base, c.key) \o Tk(":")) \o JoinWith(c.vals, Tk(":"))) \o Tk("|")) \o Tk(c.kind))
     \o (IF c.rate.has THEN (Tk("|") \o Tk("@")) \o c.rate.v ELSE Empty))
     \o (IF c.tags # <<>> THEN (Tk("|") \o Tk("#")) \o JoinWith(TagStrs(c.tags), Tk(",")) ELSE Empty))
     \o ((IF c.cid.has THEN ((Tk("|") \o Tk("c")) \o Tk(":")) \o c.cid.v ELSE Empty)
         \o (IF c.ts.has THEN (Tk("|") \o Tk("T")) \o c.ts.v ELSE Empty))

Line(cfg, call) == Render(Decorate(cfg, call))
=============================================================================
