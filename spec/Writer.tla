------------------------------ MODULE Writer ------------------------------
(***************************************************************************)
(* IMPLEMENTATION MODEL of cadence::io::MultiLineWriter<T> (io.rs) layered *)
(* over std::io::BufWriter<T> layered over an all-or-nothing datagram      *)
(* writer that may fail, composed with the property monitor WriterProp.    *)
(*                                                                         *)
(* One action per step of the code:                                        *)
(*   CallEmit    io.rs:75-79  compute left/required, choose the branch     *)
(*   Bypass      io.rs:79-91  required > capacity: inner.get_mut().write() *)
(*   FlushBuf*   io.rs:93-95,115-120 + BufWriter::flush_buf (retry loop)   *)
(*   BwWrite*    io.rs:101,104 + BufWriter::write / write_cold (3 branches)*)
(*   Return      io.rs:91/94/111                                           *)
(*   CallFlush   io.rs:115-120                                             *)
(*   Drop        BufWriter::drop (one flush_buf pass, errors ignored)      *)
(* Every attempt on the underlying writer has outcome ok / err / intr      *)
(* (io::ErrorKind::Interrupted, which flush_buf retries).                  *)
(***************************************************************************)
EXTENDS Naturals, Sequences, FiniteSets, TLC, Json

CONSTANTS Cap,        \* capacity given to MultiLineWriter (and to BufWriter)
          TLen,       \* length of the line terminator
          MaxLen,     \* metric lengths range over 0..MaxLen
          MaxFaults,  \* at most this many failed attempts per behaviour
          MaxOps,     \* at most this many API calls (0 = unbounded; the graph is finite anyway)
          Bug,        \* "none" or the name of a seeded model mutant (self-test of the properties)
          DropLate,   \* TRUE: Drop only after MaxOps calls (long random walks); FALSE: at any idle point
          Hist        \* TRUE: keep the call history (behaviour export for replay); FALSE for exhaustive runs

VARIABLES written,    \* MultiLineWriter.written
          buf,        \* bytes held by the BufWriter
          pc,         \* control point inside the current call
          cur,        \* bytes of the metric being emitted
          res,        \* result the call is about to return: <<ok, n, kind>>
          nfault, nops,
          flags,      \* model-level observations: "underflow", "autoflush"
          mon,        \* the property monitor's state
          hist        \* per call: [op, len, mid, atts, ok, n, kind, written, blen] (only when Hist)

vars == <<written, buf, pc, cur, res, nfault, nops, flags, mon, hist>>

\* bytes are naturals: metric number i is i repeated, the terminator is 0 repeated
Rep(x, n) == [j \in 1..n |-> x]
Term      == Rep(0, TLen)
P == INSTANCE WriterProp WITH Empty <- <<>>, BLen <- Len

Outcomes == {"ok", "err", "intr"}
KindOf(o) == IF o = "intr" THEN "Interrupted" ELSE "ConnectionRefused"
CanFail   == nfault < MaxFaults
Spare     == Cap - Len(buf)

\* a metric number that does not occur in the buffer (keeps the state space finite)
InBuf   == {buf[j] : j \in 1..Len(buf)}
FreshId == CHOOSE i \in 1..(Cap + 2) : i \notin InBuf /\ \A k \in 1..(i - 1) : k \in InBuf
Tick    == nops' = IF MaxOps = 0 THEN nops ELSE nops + 1

Init == /\ written = 0 /\ buf = <<>> /\ pc = "idle" /\ cur = <<>> /\ res = <<TRUE, 0, "">>
        /\ nfault = 0 /\ nops = 0 /\ flags = {}
        /\ mon = P!MonInit(Cap, Term)
        /\ hist = <<>>

\* history bookkeeping (no effect on behaviour)
HCall(op, len, mid) == hist' = IF Hist THEN Append(hist, [op |-> op, len |-> len, mid |-> mid, atts |-> <<>>, ok |-> TRUE, n |-> 0,
                                                     kind |-> "", written |-> 0, blen |-> 0]) ELSE hist
HAtt(d, o)     == hist' = IF Hist THEN [hist EXCEPT ![Len(hist)].atts = Append(@, [d |-> d, o |-> o])] ELSE hist
HEnd(r, w, b)  == hist' = IF Hist THEN [hist EXCEPT ![Len(hist)].ok = r[1], ![Len(hist)].n = r[2], ![Len(hist)].kind = r[3],
                                                    ![Len(hist)].written = w, ![Len(hist)].blen = b] ELSE hist

\* one attempt on the underlying writer with outcome o; the monitor observes it
Attempt(d, o) == /\ o \in Outcomes
                 /\ (o # "ok" => CanFail)
                 /\ nfault' = IF o = "ok" THEN nfault ELSE nfault + 1
                 /\ mon' = P!MonAtt(mon, d, o = "ok", KindOf(o))
                 /\ HAtt(d, o)

(* ------------------------------ emit ----------------------------------- *)
CallEmit(len) ==
  /\ pc = "idle" /\ (MaxOps = 0 \/ nops < MaxOps)
  /\ len + TLen > 0      \* excluded: empty metric with empty terminator (no observable bytes)
  /\ LET bytes == Rep(FreshId, len)
         req   == len + TLen
         left  == IF written <= Cap THEN Cap - written ELSE 0
     IN /\ cur' = bytes
        /\ flags' = IF written > Cap THEN flags \cup {"underflow"} ELSE flags
        /\ pc' = IF (IF Bug = "bypass-ge" THEN req >= Cap ELSE req > Cap) THEN "bypass"
                 ELSE IF (IF Bug = "flush-le" THEN left <= req ELSE left < req) THEN "flush1"
                 ELSE "body"
        /\ mon' = P!MonCall(mon, "emit", bytes)
        /\ HCall("emit", len, FreshId)
  /\ Tick
  /\ UNCHANGED <<written, buf, res, nfault>>

Bypass(o) ==
  /\ pc = "bypass"
  /\ Attempt(cur, o)
  /\ res' = IF o = "ok" THEN <<TRUE, Len(cur), "">> ELSE <<FALSE, 0, KindOf(o)>>
  /\ pc' = "ret"
  /\ UNCHANGED <<written, buf, cur, nops, flags>>

(* ---- BufWriter::flush_buf, used by flush (3 callers) and by write_cold -- *)
FlushPcs == {"flush1", "flushop", "dropflush", "auto.body", "auto.term"}

\* where control continues when flush_buf returned Ok
AfterFlushOk ==
  CASE pc = "flush1"    -> /\ written' = (IF Bug = "no-reset" THEN written ELSE 0) /\ pc' = "body" /\ UNCHANGED res
    [] pc = "flushop"   -> /\ written' = 0 /\ pc' = "ret" /\ res' = <<TRUE, 0, "">>
    [] pc = "dropflush" -> /\ pc' = "dead" /\ UNCHANGED <<written, res>>
    [] pc = "auto.body" -> /\ pc' = "cold.body" /\ UNCHANGED <<written, res>>
    [] pc = "auto.term" -> /\ pc' = "cold.term" /\ UNCHANGED <<written, res>>

\* where control continues when flush_buf returned Err(kind)
AfterFlushErr(kind) ==
  CASE pc = "dropflush" -> /\ pc' = "dead" /\ UNCHANGED <<written, res>>     \* error ignored by Drop
    [] pc = "flush1" /\ Bug = "swallow-flush-error" -> /\ pc' = "body" /\ UNCHANGED <<written, res>>
    [] OTHER            -> /\ pc' = "ret" /\ res' = <<FALSE, 0, kind>> /\ UNCHANGED written

FlushBufDone ==           \* loop condition false: nothing (left) to write
  /\ pc \in FlushPcs /\ buf = <<>>
  /\ AfterFlushOk
  /\ UNCHANGED <<buf, cur, nfault, nops, flags, mon, hist>>

FlushBufWrite(o) ==       \* one iteration of the loop: inner.write(remaining)
  /\ pc \in FlushPcs /\ buf # <<>>
  /\ Attempt(buf, o)
  /\ CASE o = "ok"   -> /\ buf' = <<>> /\ UNCHANGED <<written, pc, res>>     \* consumed; loop re-tests
       [] o = "intr" -> UNCHANGED <<buf, written, pc, res>>                  \* retried
       [] o = "err"  -> /\ UNCHANGED buf /\ AfterFlushErr(KindOf(o))         \* data kept
  /\ UNCHANGED <<cur, nops, flags>>

\* Drop reports to the monitor when it is over (separate step so that the failed case is observed too)
DropEnd == /\ pc = "dead" /\ mon.mode = "drop"
           /\ mon' = P!MonRet(mon, TRUE, 0, "")
           /\ HEnd(<<TRUE, 0, "">>, written, Len(buf))
           /\ UNCHANGED <<written, buf, pc, cur, res, nfault, nops, flags>>

(* ---- BufWriter::write(piece) for the body and then the terminator ------- *)
Piece(stage) == IF stage = "body" THEN cur ELSE Term
Counted(stage) == IF stage = "term" /\ Bug = "term-uncounted" THEN 0 ELSE Len(Piece(stage))

\* control after the piece was accepted by the BufWriter
PieceOk(stage) ==
  /\ written' = written + Counted(stage)
  /\ IF stage = "body" THEN pc' = "term" /\ UNCHANGED res
     ELSE pc' = "ret" /\ res' = <<TRUE, Len(cur), "">>

BwWriteFast(stage) ==     \* buf.len() < spare_capacity: copy into the buffer
  /\ pc = stage /\ Len(Piece(stage)) < Spare
  /\ buf' = buf \o Piece(stage)
  /\ PieceOk(stage)
  /\ UNCHANGED <<cur, nfault, nops, flags, mon, hist>>

BwWriteCold(stage) ==     \* write_cold: flush first when it does not fit
  /\ pc = stage /\ ~(Len(Piece(stage)) < Spare)
  /\ IF Len(Piece(stage)) > Spare
     THEN /\ pc' = "auto." \o stage
          /\ flags' = IF buf # <<>> THEN flags \cup {"autoflush"} ELSE flags
     ELSE /\ pc' = "cold." \o stage /\ UNCHANGED flags
  /\ UNCHANGED <<written, buf, cur, res, nfault, nops, mon, hist>>

BwColdBuffer(stage) ==    \* after the optional flush: smaller than the capacity -> buffer
  /\ pc = "cold." \o stage
  /\ ~(IF Bug = "bypass-gt" THEN Len(Piece(stage)) > Cap ELSE Len(Piece(stage)) >= Cap)
  /\ buf' = buf \o Piece(stage)
  /\ PieceOk(stage)
  /\ UNCHANGED <<cur, nfault, nops, flags, mon, hist>>

BwColdDirect(stage, o) == \* at least the capacity -> written straight through
  /\ pc = "cold." \o stage
  /\ (IF Bug = "bypass-gt" THEN Len(Piece(stage)) > Cap ELSE Len(Piece(stage)) >= Cap)
  /\ Attempt(Piece(stage), o)
  /\ IF o = "ok" THEN PieceOk(stage) /\ UNCHANGED buf
     ELSE /\ pc' = "ret" /\ res' = <<FALSE, 0, KindOf(o)>> /\ UNCHANGED <<written, buf>>
  /\ UNCHANGED <<cur, nops, flags>>

(* ------------------------------ flush / drop / return -------------------- *)
CallFlush == /\ pc = "idle" /\ (MaxOps = 0 \/ nops < MaxOps)
             /\ pc' = "flushop" /\ Tick
             /\ mon' = P!MonCall(mon, "flush", <<>>) /\ HCall("flush", 0, 0)
             /\ UNCHANGED <<written, buf, cur, res, nfault, flags>>

Drop == /\ pc = "idle" /\ (DropLate => nops = MaxOps)
        /\ pc' = "dropflush"
        /\ mon' = P!MonCall(mon, "drop", <<>>) /\ HCall("drop", 0, 0)
        /\ UNCHANGED <<written, buf, cur, res, nfault, nops, flags>>

Return == /\ pc = "ret"
          /\ pc' = "idle" /\ cur' = <<>>
          /\ mon' = P!MonRet(mon, res[1], res[2], res[3])
          /\ HEnd(res, written, Len(buf))
          /\ UNCHANGED <<written, buf, res, nfault, nops, flags>>

Next ==
  \/ \E len \in 0..MaxLen : CallEmit(len)
  \/ \E o \in Outcomes : Bypass(o)
  \/ FlushBufDone
  \/ \E o \in Outcomes : FlushBufWrite(o)
  \/ \E s \in {"body", "term"} : BwWriteFast(s) \/ BwWriteCold(s) \/ BwColdBuffer(s)
  \/ \E s \in {"body", "term"}, o \in Outcomes : BwColdDirect(s, o)
  \/ CallFlush \/ Drop \/ DropEnd \/ Return

Spec == Init /\ [][Next]_vars

(* ------------------------------ properties ------------------------------- *)
TypeOK == /\ written \in Nat /\ pc \in STRING /\ nfault \in 0..MaxFaults

\* the listed properties: the monitor never flags anything
NoViolation == mon.viol = {}
\* C20 / C05 arithmetic guards
FillWithinCapacity == written <= Cap /\ "underflow" \notin flags
\* BufWriter never has to flush on its own in the middle of a line
NoAutoFlush == "autoflush" \notin flags
\* the two fill counters agree whenever no call is in progress
CountersAgree == pc = "idle" => (Len(buf) = written \/ (buf = <<>> /\ written = Cap))
\* what the monitor believes is pending is exactly what the BufWriter holds
PendIsBuffer == pc \in {"idle"} => P!Lines(mon.pend, Term) = buf

\* behaviour export: one line per completed behaviour (used with Hist = TRUE)
Export == (pc = "dead" /\ mon.mode = "dead") =>
            PrintT(<<"REPLAY", ToJson([cap |-> Cap, tlen |-> TLen, calls |-> hist])>>)
=============================================================================
