-------------------------- MODULE WriterIntProof --------------------------
(***************************************************************************)
(* TLAPS proof that IndInv of WriterInt.tla is an inductive invariant, for *)
(* ALL capacities, terminator lengths and metric lengths (Nat): the fill   *)
(* count never exceeds the capacity (so `capacity - written` cannot        *)
(* underflow, C20), BufWriter never has to flush on its own in the middle  *)
(* of a line (C05), and the two fill counters stay in step.  The same      *)
(* obligations are discharged symbolically by Apalache in the checks; this *)
(* module is the machine-checked proof (tlapm, SMT back end).              *)
(***************************************************************************)
EXTENDS WriterInt, TLAPS

ASSUME ConstAssump == Cap \in Nat /\ TLen \in Nat

THEOREM InitInv == Init => IndInv
  BY ConstAssump DEF Init, IndInv

LEMMA EmitInv == ASSUME IndInv, NEW len \in Nat, NEW ok \in BOOLEAN, Emit(len, ok) PROVE IndInv'
<1> USE ConstAssump DEF IndInv, Emit, BwBlen, BwAuto, EmitNextW, EmitNextB, BwBlenC, BwAutoC
<1>1. CASE len + TLen > Cap                                       \* bypass: nothing changes
  BY <1>1
<1>2. CASE len + TLen <= Cap /\ Cap - written < len + TLen /\ ~ok   \* the flush failed: nothing changes
  BY <1>2
<1>3. CASE len + TLen <= Cap /\ Cap - written < len + TLen /\ ok    \* flushed, then buffered into an empty buffer
  BY <1>3
<1>4. CASE len + TLen <= Cap /\ ~(Cap - written < len + TLen)       \* it fits behind what is buffered
  <2>1. CASE blen = 0 /\ written = Cap          \* only an empty metric with an empty terminator "fits"
    BY <1>4, <2>1
  <2>2. CASE blen = written /\ len < Cap - blen /\ TLen < Cap - (blen + len)
    BY <1>4, <2>2
  <2>3. CASE blen = written /\ len < Cap - blen /\ TLen = Cap - (blen + len)
    BY <1>4, <2>3
  <2>4. CASE blen = written /\ len = Cap - blen
    BY <1>4, <2>4
  <2> QED BY <1>4, <2>1, <2>2, <2>3, <2>4
<1> QED BY <1>1, <1>2, <1>3, <1>4

LEMMA FlushInv == ASSUME IndInv, NEW ok \in BOOLEAN, Flush(ok) PROVE IndInv'
  BY ConstAssump DEF IndInv, Flush

THEOREM NextInv == IndInv /\ Next => IndInv'
  BY EmitInv, FlushInv DEF Next

=============================================================================
