---------------------------- MODULE WriterInt ----------------------------
(***************************************************************************)
(* INTEGER ABSTRACTION of Writer.tla for ALL capacities (C05 / C20):       *)
(* buffers are abstracted to their byte counts, the underlying writer to   *)
(* "this flush succeeded / failed".  The invariant                         *)
(*    written <= Cap /\ blen <= Cap                                        *)
(*    /\ (blen = written \/ (blen = 0 /\ written = Cap))                   *)
(*    /\ BufWriter never has to flush on its own  /\ Cap - written never   *)
(*       underflows                                                        *)
(* is INDUCTIVE; Apalache discharges  Init => IndInv  and                  *)
(* IndInv /\ Next => IndInv'  for all Cap, TLen, len \in Nat (symbolic),   *)
(* which TLC can only do for the small constants of MC_Writer.             *)
(*  apalache-mc check --cinit=ConstInit --inv=IndInv --length=0            *)
(*  apalache-mc check --cinit=ConstInit --init=IndInit --inv=IndInv --length=1 *)
(* and WriterIntProof.tla is the TLAPS proof of the same two obligations.   *)
(***************************************************************************)
EXTENDS Integers, WriterIntOps
CONSTANTS
  \* @type: Int;
  Cap,
  \* @type: Int;
  TLen
VARIABLES
  \* @type: Int;
  written,
  \* @type: Int;
  blen,
  \* @type: Bool;
  autoflush,
  \* @type: Bool;
  underflow
ConstInit == Cap \in Nat /\ TLen \in Nat
Init == written = 0 /\ blen = 0 /\ autoflush = FALSE /\ underflow = FALSE
\* BufWriter::write of a piece of n bytes: new buffer length, and whether BufWriter had to flush on its own
BwBlen(b, n) == BwBlenC(Cap, b, n)
BwAuto(b, n) == BwAutoC(Cap, b, n)
\* io.rs:75-113
Emit(len, flushOk) ==
  LET req == len + TLen
      left == Cap - written IN
  /\ underflow' = (underflow \/ written > Cap)
  /\ IF req > Cap THEN UNCHANGED <<written, blen, autoflush>>                      \* bypass
     ELSE IF left < req /\ ~flushOk THEN UNCHANGED <<written, blen, autoflush>>   \* flush()? failed
     ELSE LET w0 == IF left < req THEN 0 ELSE written
              b0 == IF left < req THEN 0 ELSE blen
              b1 == BwBlen(b0, len) IN
          /\ written' = EmitNextW(Cap, TLen, written, blen, len, flushOk)
          /\ blen' = EmitNextB(Cap, TLen, written, blen, len, flushOk)
          /\ autoflush' = (autoflush \/ BwAuto(b0, len) \/ BwAuto(b1, TLen))
\* io.rs:115-120
Flush(ok) == /\ IF ok THEN written' = 0 /\ blen' = 0 ELSE UNCHANGED <<written, blen>>
             /\ UNCHANGED <<autoflush, underflow>>
Next == \/ \E len \in Nat : \E ok \in BOOLEAN : Emit(len, ok)
        \/ \E ok \in BOOLEAN : Flush(ok)
IndInv == /\ written \in Nat /\ blen \in Nat /\ written <= Cap /\ blen <= Cap
          /\ (blen = written \/ (blen = 0 /\ written = Cap))
          /\ ~autoflush /\ ~underflow
\* an initial-state predicate that ASSIGNS every variable and describes exactly the states of IndInv
IndInit == /\ written \in Nat /\ blen \in Nat /\ autoflush = FALSE /\ underflow = FALSE
           /\ written <= Cap /\ blen <= Cap /\ (blen = written \/ (blen = 0 /\ written = Cap))
Safe == ~autoflush /\ ~underflow /\ written <= Cap
=============================================================================
