---------------------------- MODULE WriterIntOps ----------------------------
(* Pure integer operators shared by WriterInt.tla (Apalache, all capacities) and WriterIntTrace.tla *)
(* (traces of the real writer): what one BufWriter::write of n bytes does to the buffer length,     *)
(* and the next (written, buffered) of MultiLineWriter::write / flush.                              *)
EXTENDS Integers

\* @type: (Int, Int, Int) => Int;
BwBlenC(cap, b, n) == IF n < cap - b THEN b + n
                      ELSE IF n >= cap THEN (IF n > cap - b THEN 0 ELSE b)
                      ELSE (IF n > cap - b THEN n ELSE b + n)
\* @type: (Int, Int, Int) => Bool;
BwAutoC(cap, b, n) == ~(n < cap - b) /\ n > cap - b /\ b > 0

\* io.rs:75-113 - written' and buffered' after emit(len); flushOk: the flush taken when the metric does not fit succeeded
\* @type: (Int, Int, Int, Int, Int, Bool) => Int;
EmitNextW(cap, tlen, w, b, len, flushOk) ==
  IF len + tlen > cap THEN w
  ELSE IF cap - w < len + tlen /\ ~flushOk THEN w
  ELSE (IF cap - w < len + tlen THEN 0 ELSE w) + len + tlen
\* @type: (Int, Int, Int, Int, Int, Bool) => Int;
EmitNextB(cap, tlen, w, b, len, flushOk) ==
  IF len + tlen > cap THEN b
  ELSE IF cap - w < len + tlen /\ ~flushOk THEN b
  ELSE BwBlenC(cap, BwBlenC(cap, IF cap - w < len + tlen THEN 0 ELSE b, len), tlen)
\* @type: (Int, Int, Int, Int, Int, Bool) => <<Int, Int>>;
EmitNextC(cap, tlen, w, b, len, flushOk) ==
  <<EmitNextW(cap, tlen, w, b, len, flushOk), EmitNextB(cap, tlen, w, b, len, flushOk)>>
=============================================================================
