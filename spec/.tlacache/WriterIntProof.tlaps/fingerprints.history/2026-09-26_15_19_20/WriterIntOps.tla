---------------------------- MODULE WriterIntOps ----------------------------
(* Pure integer operators shared by WriterInt.tla (Apalache, all capacities) and WriterIntTrace.tla *)
(* (traces of the real writer): what one BufWriter::write of n bytes does to the buffer length,     *)
(* and the next (written, buffered) of MultiLineWriter::write / flush.                              *)
EXTENDS Integers

\* @type: (Int, Int, Int) => Int;
BwBlenC(cap, b, n) == IF n < cap - b THEN b + n
                      ELSE IF n >= cap THEN (IF n > cap - b THEN 0 ELSE b)
                      ELSE (IF n > cap - b THEN n ELSE b + n)
\* @type: (Int, Int, Int) => Bool;
BwAutoC(cap, b, n) == ~(n < cap - b) /\ n > cap - b /\ b > 0

\* io.rs:75-113 - <<written', buffered'>> after emit(len); flushOk: the flush taken when the metric does not fit succeeded
\* @type: (Int, Int, Int, Int, Int, Bool) => <<Int, Int>>;
EmitNextC(cap, tlen, w, b, len, flushOk) ==
  LET req == len + tlen
      left == cap - w IN
  IF req > cap THEN <<w, b>>
  ELSE IF left < req /\ ~flushOk THEN <<w, b>>
  ELSE LET w0 == IF left < req THEN 0 ELSE w
           b0 == IF left < req THEN 0 ELSE b
       IN <<w0 + len + tlen, BwBlenC(cap, BwBlenC(cap, b0, len), tlen)>>
=============================================================================
