-------------------------- MODULE WriterIntProof --------------------------
(***************************************************************************)
(* TLAPS proof that IndInv of WriterInt.tla is an inductive invariant, for *)
(* ALL capacities, terminator lengths and metric lengths (Nat): the fill   *)
(* count never exceeds the capacity (so `capacity - written` cannot        *)
(* underflow, C20), BufWriter never has to flush on its own in the middle  *)
(* of a line (C05), and the two fill counters stay in step.  The same      *)
(* obligations are discharged symbolically by Apalache in the checks; this *)
(* module is the machine-checked proof (tlapm, SMT back end).              *)
(***************************************************************************)
EXTENDS WriterInt, TLAPS

ASSUME ConstAssump == Cap \in Nat /\ TLen \in Nat

THEOREM InitInv == Init => IndInv
  BY ConstAssump DEF Init, IndInv

LEMMA EmitInv == ASSUME IndInv, NEW len \in Nat, NEW ok \in BOOLEAN, Emit(len, ok) PROVE IndInv'
  BY ConstAssump, SMT DEF IndInv, Emit, BwBlen, BwAuto, EmitNextC, BwBlenC, BwAutoC

LEMMA FlushInv == ASSUME IndInv, NEW ok \in BOOLEAN, Flush(ok) PROVE IndInv'
  BY ConstAssump DEF IndInv, Flush

THEOREM NextInv == IndInv /\ Next => IndInv'
  BY EmitInv, FlushInv DEF Next

=============================================================================
