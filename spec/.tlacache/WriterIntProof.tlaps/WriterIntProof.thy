(* automatically generated -- do not edit manually *)
theory WriterIntProof imports Constant Zenon begin
ML_command \<open> writeln ("*** TLAPS PARSED\n"); \<close>
consts
  "isReal" :: c
  "isa_slas_a" :: "[c,c] => c"
  "isa_bksl_diva" :: "[c,c] => c"
  "isa_perc_a" :: "[c,c] => c"
  "isa_peri_peri_a" :: "[c,c] => c"
  "isInfinity" :: c
  "isa_lbrk_rbrk_a" :: "[c] => c"
  "isa_less_more_a" :: "[c] => c"

end
