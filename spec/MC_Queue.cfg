SPECIFICATION LiveSpec
CONSTANTS
  Cap = 2
  MaxMetrics = 3
  MaxHandles = 2
  Outcomes = {"ok", "err", "panic"}
  HasEH = TRUE
  StopPolicy = "fixed"
  Sampler = FALSE
  Monitor = TRUE
  Hist = FALSE
  GenMinM = 0
INVARIANTS NoViolation C08_Safe C10_Cap C10_NeverBlocked C15_Quiescent C15_NoWrap C11_Panics C09_Safe
PROPERTIES C08_Live C09_Live
CHECK_DEADLOCK FALSE
