------------------------------ MODULE Queue ------------------------------
(***************************************************************************)
(* IMPLEMENTATION MODEL of cadence::QueuingMetricSink (sinks/queuing.rs),  *)
(* one action per linearisation point / hook point of the code, composed   *)
(* with the property monitor QueueProp.                                    *)
(*                                                                         *)
(*  producers (one per handle)       queuing.rs                            *)
(*    EmitStart   emit() entered, up to Worker::submit         :264,:449  *)
(*    EmitTry     sender.try_send(Some(m))                     :450       *)
(*    EmitCount   stats.incr_submitted() when it was accepted  :451-453   *)
(*    EmitRet     emit() returns Ok(len) / Err("channel full") :266-270   *)
(*  handles                                                                *)
(*    Clone       #[derive(Clone)]                             :144       *)
(*    DropStart / StopTry / SpawnHelper / DropRet   Stopper::drop -> Worker::stop (last clone only,  *)
(*                after the fix of D2; helper thread after the fix of D3)  *)
(*    HelperSend  the helper's blocking sender.send(None)                  *)
(*  worker thread(s)                                                       *)
(*    Recv        receiver.iter().next()                       :459       *)
(*    CountDrained stats.incr_drained()                        :461       *)
(*    TaskBegin / TaskEnd(ok|err) / HandlerDone / TaskPanic    :63-69,:462 *)
(*    Respawn     Sentinel::drop: incr_panic + spawn           :384-395   *)
(*    Exit / ThreadEnd  leave run(), cancel sentinel, release  :463-471   *)
(*  Delegate    flush()/stats() run the wrapped sink on the caller thread   *)
(*  sampler: queued() = two separate loads and a guarded subtraction :337  *)
(*                                                                         *)
(* StopPolicy re-introduces the two repaired defects in the MODEL:         *)
(*   "legacy"   every handle's Drop sends the stop marker (D2) and a       *)
(*              marker that does not fit is lost (D3)                      *)
(*   "nohelper" only the last drop stops, but a marker that does not fit   *)
(*              is lost (D3 only)                                          *)
(*   "fixed"    the code as it is now                                      *)
(*   "blocking-emit"  emit waits for room (send instead of try_send): must *)
(*              be refuted by C10_NeverBlocked                             *)
(*   "flush-in-emit"  a refused emit flushes the wrapped sink on the       *)
(*              caller's thread: must be refuted by the monitor (C10)      *)
(***************************************************************************)
EXTENDS Naturals, Integers, Sequences, FiniteSets, TLC, SequencesExt, Json

CONSTANTS Cap,          \* queue capacity; 0 = rendezvous; UNB = unbounded
          MaxMetrics,   \* emits ever started
          MaxHandles,   \* handles ever created
          Outcomes,     \* what the wrapped sink may do with a metric: subset of {"ok","err","panic"}
          HasEH,        \* an error handler is configured
          StopPolicy,   \* "fixed" | "nohelper" | "legacy"
          Sampler,      \* TRUE: a thread sampling the counters runs concurrently
          Monitor,      \* TRUE: compose with the QueueProp monitor (history; smaller configs)
          Hist,         \* TRUE: record the behaviour for replay
          GenMinM       \* behaviour generation only: handles are not dropped before this many emits started

UNB  == 1000000
NONE == 0
P == INSTANCE QueueProp WITH NoM <- 0

VARIABLES handles, nextH, nextM,
          ppc, pm, pok,          \* per handle: producer control point, metric, try_send result
          chan,                  \* the channel: metric numbers, NONE is the stop marker
          wk, cur, wgen,         \* worker control point, metric in hand, thread generation
          dpc, dh,               \* the thread running the stopping drop: control point, handle
          helper,                \* "none" | "begin" | "sent" | "ended"
          submitted, drained, panics,
          spc, sS, sD, wrap,     \* sampler
          accepted, delivered, hlog, released,   \* ghost: what really happened
          mon, hist

vars == <<handles, nextH, nextM, ppc, pm, pok, chan, wk, cur, wgen, dpc, dh, helper,
          submitted, drained, panics, spc, sS, sD, wrap, accepted, delivered, hlog, released, mon, hist>>

Handles == 1..MaxHandles
Room == Cap = UNB \/ Len(chan) < Cap
\* a zero capacity channel hands over only to a receiver that is waiting in recv
CanSend == IF Cap = 0 THEN wk = "recv" /\ chan = <<>> ELSE Room
WTid == 100 + wgen            \* thread ids: producers/droppers = handle number, workers 100+generation
ErrMsg(m) == "wrapped-err-" \o ToString(m)

M(f) == mon' = IF Monitor THEN f ELSE mon
\* every exported step carries the counters and the ghost state after the step
H(e) == hist' = IF Hist THEN Append(hist, e @@ [s |-> submitted', d |-> drained', p |-> panics', rel |-> released',
                                                    nacc |-> Len(accepted'), ndel |-> Len(delivered')]) ELSE hist

Init ==
  /\ handles = {1} /\ nextH = 2 /\ nextM = 1
  /\ ppc = [h \in Handles |-> "idle"] /\ pm = [h \in Handles |-> NONE] /\ pok = [h \in Handles |-> FALSE]
  /\ chan = <<>> /\ wk = "recv" /\ cur = NONE /\ wgen = 0
  /\ dpc = "none" /\ dh = 0 /\ helper = "none"
  /\ submitted = 0 /\ drained = 0 /\ panics = 0
  /\ spc = "idle" /\ sS = 0 /\ sD = 0 /\ wrap = FALSE
  /\ accepted = <<>> /\ delivered = <<>> /\ hlog = <<>> /\ released = FALSE
  /\ mon = P!QInit(Cap, HasEH) /\ hist = <<>>

(* ------------------------------ producers -------------------------------- *)
EmitStart(h) ==
  /\ h \in handles /\ ppc[h] = "idle" /\ nextM <= MaxMetrics /\ ~(dpc # "none" /\ dh = h)
  /\ ppc' = [ppc EXCEPT ![h] = "try"] /\ pm' = [pm EXCEPT ![h] = nextM] /\ nextM' = nextM + 1
  /\ M(P!QECall(mon, h, nextM, h))
  /\ UNCHANGED <<handles, nextH, pok, chan, wk, cur, wgen, dpc, dh, helper, submitted, drained, panics,
                 spc, sS, sD, wrap, accepted, delivered, hlog, released>>
  /\ H([a |-> "EmitStart", h |-> h, m |-> nextM])

EmitTry(h) ==
  /\ ppc[h] = "try"
  /\ (StopPolicy = "blocking-emit" => CanSend)      \* model mutant: send() instead of try_send()
  /\ IF CanSend
     THEN /\ chan' = Append(chan, pm[h]) /\ accepted' = Append(accepted, pm[h]) /\ pok' = [pok EXCEPT ![h] = TRUE]
     ELSE /\ UNCHANGED <<chan, accepted>> /\ pok' = [pok EXCEPT ![h] = FALSE]
  /\ ppc' = [ppc EXCEPT ![h] = "count"]
  \* model mutant: a refused emit flushes the wrapped sink on the caller's thread "to make room"
  /\ IF StopPolicy = "flush-in-emit" /\ ~CanSend THEN M(P!QWOther(mon, h)) ELSE UNCHANGED mon
  /\ UNCHANGED <<handles, nextH, nextM, pm, wk, cur, wgen, dpc, dh, helper, submitted, drained, panics,
                 spc, sS, sD, wrap, delivered, hlog, released>>
  /\ H([a |-> "EmitTry", h |-> h, m |-> pm[h], ok |-> CanSend])

EmitCount(h) ==
  /\ ppc[h] = "count"
  /\ submitted' = IF pok[h] THEN submitted + 1 ELSE submitted
  /\ ppc' = [ppc EXCEPT ![h] = "ret"]
  /\ UNCHANGED <<handles, nextH, nextM, pm, pok, chan, wk, cur, wgen, dpc, dh, helper, drained, panics,
                 spc, sS, sD, wrap, accepted, delivered, hlog, released, mon>>
  /\ H([a |-> "EmitCount", h |-> h, m |-> pm[h], submitted |-> submitted'])

EmitRet(h) ==
  /\ ppc[h] = "ret"
  /\ ppc' = [ppc EXCEPT ![h] = "idle"] /\ pm' = [pm EXCEPT ![h] = NONE]
  /\ M(P!QERet(mon, pm[h], pok[h], 1, IF pok[h] THEN "" ELSE "channel full", 1))
  /\ UNCHANGED <<handles, nextH, nextM, pok, chan, wk, cur, wgen, dpc, dh, helper, submitted, drained, panics,
                 spc, sS, sD, wrap, accepted, delivered, hlog, released>>
  /\ H([a |-> "EmitRet", h |-> h, m |-> pm[h], ok |-> pok[h]])

\* flush() / stats() of the queuing sink delegate to the wrapped sink on the CALLER's own thread (queuing.rs: MetricSink::flush,
\* MetricSink::stats): legitimate, and never part of an emit (C10) - the monitor tells the two apart by the thread
Delegate(h) ==
  /\ h \in handles /\ ppc[h] = "idle" /\ ~(dpc # "none" /\ dh = h) /\ ~released
  /\ (Hist => Len(hist) % 5 = 3)          \* behaviour generation only: thin out (the step changes no state)
  /\ M(P!QWOther(mon, h))
  /\ UNCHANGED <<handles, nextH, nextM, ppc, pm, pok, chan, wk, cur, wgen, dpc, dh, helper, submitted, drained, panics,
                 spc, sS, sD, wrap, accepted, delivered, hlog, released>>
  /\ H([a |-> "Delegate", h |-> h])

(* ------------------------------ handles ----------------------------------- *)
Clone(h) ==
  /\ h \in handles /\ ppc[h] = "idle" /\ nextH <= MaxHandles /\ ~(dpc # "none" /\ dh = h)
  /\ handles' = handles \cup {nextH} /\ nextH' = nextH + 1
  /\ M(P!QClone(mon, h, nextH))
  /\ UNCHANGED <<nextM, ppc, pm, pok, chan, wk, cur, wgen, dpc, dh, helper, submitted, drained, panics,
                 spc, sS, sD, wrap, accepted, delivered, hlog, released>>
  /\ H([a |-> "Clone", h |-> h, h2 |-> nextH])

Stops(h) == StopPolicy = "legacy" \/ handles = {h}

\* dropping a handle that does not stop the worker is a single step (an Arc decrement)
DropQuiet(h) ==
  /\ h \in handles /\ ppc[h] = "idle" /\ dpc = "none" /\ ~Stops(h) /\ nextM > GenMinM
  /\ handles' = handles \ {h}
  /\ M(P!QDropEnd(P!QDropBegin(mon, h, h), h, FALSE))
  /\ UNCHANGED <<nextH, nextM, ppc, pm, pok, chan, wk, cur, wgen, dpc, dh, helper, submitted, drained, panics,
                 spc, sS, sD, wrap, accepted, delivered, hlog, released>>
  /\ H([a |-> "DropQuiet", h |-> h])

DropStart(h) ==
  /\ h \in handles /\ ppc[h] = "idle" /\ dpc = "none" /\ Stops(h) /\ nextM > GenMinM
  /\ handles' = handles \ {h} /\ dpc' = "begin" /\ dh' = h
  /\ M(P!QDropBegin(mon, h, h))
  /\ UNCHANGED <<nextH, nextM, ppc, pm, pok, chan, wk, cur, wgen, helper, submitted, drained, panics,
                 spc, sS, sD, wrap, accepted, delivered, hlog, released>>
  /\ H([a |-> "DropStart", h |-> h])

StopTry ==                      \* sender.try_send(None)
  /\ dpc = "begin"
  /\ IF CanSend THEN chan' = Append(chan, NONE) /\ dpc' = "done"
                ELSE UNCHANGED chan /\ dpc' = (IF StopPolicy = "fixed" THEN "full" ELSE "done")
  /\ UNCHANGED <<handles, nextH, nextM, ppc, pm, pok, wk, cur, wgen, dh, helper, submitted, drained, panics,
                 spc, sS, sD, wrap, accepted, delivered, hlog, released, mon>>
  /\ H([a |-> "StopTry", h |-> dh, sent |-> CanSend])

SpawnHelper ==                  \* TrySendError::Full: hand the marker to a short-lived thread
  /\ dpc = "full" /\ helper = "none"
  /\ helper' = "begin" /\ dpc' = "done"
  /\ UNCHANGED <<handles, nextH, nextM, ppc, pm, pok, chan, wk, cur, wgen, dh, submitted, drained, panics,
                 spc, sS, sD, wrap, accepted, delivered, hlog, released, mon>>
  /\ H([a |-> "SpawnHelper", h |-> dh])

HelperSend ==                   \* blocking send: waits for room
  /\ helper = "begin" /\ CanSend
  /\ chan' = Append(chan, NONE) /\ helper' = "ended"
  /\ UNCHANGED <<handles, nextH, nextM, ppc, pm, pok, wk, cur, wgen, dpc, dh, submitted, drained, panics,
                 spc, sS, sD, wrap, accepted, delivered, hlog, released, mon>>
  /\ H([a |-> "HelperSend"])

DropRet ==
  /\ dpc = "done"
  /\ dpc' = "none"
  /\ M(P!QDropEnd(mon, dh, FALSE))
  /\ UNCHANGED <<handles, nextH, nextM, ppc, pm, pok, chan, wk, cur, wgen, dh, helper, submitted, drained, panics,
                 spc, sS, sD, wrap, accepted, delivered, hlog, released>>
  /\ H([a |-> "DropRet", h |-> dh])

(* ------------------------------ worker ------------------------------------ *)
Recv ==
  /\ wk = "recv" /\ chan # <<>>
  /\ chan' = Tail(chan)
  /\ IF Head(chan) = NONE THEN wk' = "gotnone" /\ cur' = NONE ELSE wk' = "got" /\ cur' = Head(chan)
  /\ UNCHANGED <<handles, nextH, nextM, ppc, pm, pok, wgen, dpc, dh, helper, submitted, drained, panics,
                 spc, sS, sD, wrap, accepted, delivered, hlog, released, mon>>
  /\ H([a |-> "Recv", m |-> Head(chan)])

CountDrained ==
  /\ wk = "got" /\ drained' = drained + 1 /\ wk' = "counted"
  /\ UNCHANGED <<handles, nextH, nextM, ppc, pm, pok, chan, cur, wgen, dpc, dh, helper, submitted, panics,
                 spc, sS, sD, wrap, accepted, delivered, hlog, released, mon>>
  /\ H([a |-> "CountDrained", drained |-> drained'])

TaskBegin ==
  /\ wk = "counted" /\ wk' = "insink" /\ delivered' = Append(delivered, cur)
  /\ M(P!QWEnter(mon, cur, WTid))
  /\ UNCHANGED <<handles, nextH, nextM, ppc, pm, pok, chan, cur, wgen, dpc, dh, helper, submitted, drained, panics,
                 spc, sS, sD, wrap, accepted, hlog, released>>
  /\ H([a |-> "TaskBegin", m |-> cur])

TaskEnd(o) ==
  /\ wk = "insink" /\ o \in Outcomes \ {"panic"}
  /\ IF o = "err" /\ HasEH THEN wk' = "eh" /\ UNCHANGED cur ELSE wk' = "recv" /\ cur' = NONE
  /\ M(P!QWLeave(mon, cur, o, IF o = "err" THEN ErrMsg(cur) ELSE ""))
  /\ UNCHANGED <<handles, nextH, nextM, ppc, pm, pok, chan, wgen, dpc, dh, helper, submitted, drained, panics,
                 spc, sS, sD, wrap, accepted, delivered, hlog, released>>
  /\ H([a |-> "TaskEnd", m |-> cur, o |-> o])

HandlerDone ==
  /\ wk = "eh" /\ wk' = "recv" /\ cur' = NONE /\ hlog' = Append(hlog, cur)
  /\ M(P!QEH(mon, ErrMsg(cur), WTid))
  /\ UNCHANGED <<handles, nextH, nextM, ppc, pm, pok, chan, wgen, dpc, dh, helper, submitted, drained, panics,
                 spc, sS, sD, wrap, accepted, delivered, released>>
  /\ H([a |-> "HandlerDone", m |-> cur])

TaskPanic ==                    \* the wrapped sink panics: run() unwinds into Sentinel::drop
  /\ wk = "insink" /\ "panic" \in Outcomes
  /\ wk' = "unwinding" /\ cur' = NONE /\ panics' = panics + 1
  /\ M(P!QWLeave(mon, cur, "panic", ""))
  /\ UNCHANGED <<handles, nextH, nextM, ppc, pm, pok, chan, wgen, dpc, dh, helper, submitted, drained,
                 spc, sS, sD, wrap, accepted, delivered, hlog, released>>
  /\ H([a |-> "TaskPanic", m |-> cur, panics |-> panics'])

Respawn ==                      \* a new thread runs the same worker
  /\ wk = "unwinding" /\ wk' = "recv" /\ wgen' = wgen + 1
  /\ UNCHANGED <<handles, nextH, nextM, ppc, pm, pok, chan, cur, dpc, dh, helper, submitted, drained, panics,
                 spc, sS, sD, wrap, accepted, delivered, hlog, released, mon>>
  /\ H([a |-> "Respawn"])

Exit ==
  /\ wk = "gotnone" /\ wk' = "exiting"
  /\ UNCHANGED <<handles, nextH, nextM, ppc, pm, pok, chan, cur, wgen, dpc, dh, helper, submitted, drained, panics,
                 spc, sS, sD, wrap, accepted, delivered, hlog, released, mon>>
  /\ H([a |-> "Exit"])

ThreadEnd ==
  /\ wk = "exiting" /\ wk' = "ended"
  /\ UNCHANGED <<handles, nextH, nextM, ppc, pm, pok, chan, cur, wgen, dpc, dh, helper, submitted, drained, panics,
                 spc, sS, sD, wrap, accepted, delivered, hlog, released, mon>>
  /\ H([a |-> "ThreadEnd"])

\* the wrapped sink is destroyed when the last owner of the worker goes away
Release ==
  /\ ~released /\ wk = "ended" /\ handles = {} /\ dpc = "none"
  /\ released' = TRUE
  /\ M(P!QWDropped(mon))
  /\ UNCHANGED <<handles, nextH, nextM, ppc, pm, pok, chan, wk, cur, wgen, dpc, dh, helper, submitted, drained, panics,
                 spc, sS, sD, wrap, accepted, delivered, hlog>>
  /\ H([a |-> "Release"])

(* ------------------------------ sampler ----------------------------------- *)
SampleS == /\ Sampler /\ spc = "idle" /\ sS' = submitted /\ spc' = "s"
           /\ M(P!QSampleBegin(mon))
           /\ UNCHANGED <<handles, nextH, nextM, ppc, pm, pok, chan, wk, cur, wgen, dpc, dh, helper, submitted,
                          drained, panics, sD, wrap, accepted, delivered, hlog, released, hist>>
SampleD == /\ spc = "s" /\ sD' = drained /\ spc' = "d"
           /\ UNCHANGED <<handles, nextH, nextM, ppc, pm, pok, chan, wk, cur, wgen, dpc, dh, helper, submitted,
                          drained, panics, sS, wrap, accepted, delivered, hlog, released, mon, hist>>
\* queued(): if submitted > drained { submitted - drained } else { 0 }; then the caller reads the others
SampleResult ==
  /\ spc = "d" /\ spc' = "idle"
  /\ LET qd == IF sS > sD THEN sS - sD ELSE 0 IN
     /\ wrap' = (wrap \/ qd < 0)
     /\ M(P!QSample(mon, submitted, drained, qd, panics))
  /\ UNCHANGED <<handles, nextH, nextM, ppc, pm, pok, chan, wk, cur, wgen, dpc, dh, helper, submitted,
                 drained, panics, sS, sD, accepted, delivered, hlog, released, hist>>

Worker == Recv \/ CountDrained \/ TaskBegin \/ (\E o \in Outcomes : TaskEnd(o)) \/ HandlerDone \/ TaskPanic
          \/ Respawn \/ Exit \/ ThreadEnd \/ Release
Dropper == StopTry \/ SpawnHelper \/ DropRet
Next == \/ \E h \in Handles : EmitStart(h) \/ EmitTry(h) \/ EmitCount(h) \/ EmitRet(h)
                              \/ Clone(h) \/ DropQuiet(h) \/ DropStart(h) \/ Delegate(h)
        \/ Dropper \/ HelperSend \/ Worker
        \/ SampleS \/ SampleD \/ SampleResult

\* the wrapped sink eventually finishes each metric one way or the other
TaskFair == WF_vars((\E o \in Outcomes : TaskEnd(o)) \/ TaskPanic)
Spec == Init /\ [][Next]_vars
LiveSpec == Spec /\ WF_vars(Recv) /\ WF_vars(CountDrained) /\ WF_vars(TaskBegin) /\ TaskFair
            /\ WF_vars(HandlerDone) /\ WF_vars(Respawn) /\ WF_vars(Exit) /\ WF_vars(ThreadEnd) /\ WF_vars(Release)
            /\ WF_vars(Dropper) /\ WF_vars(HelperSend)
            /\ \A h \in Handles : WF_vars(EmitTry(h) \/ EmitCount(h) \/ EmitRet(h))

(* ------------------------------ properties -------------------------------- *)
NoViolation == mon.viol = {}
\* C08: what reached the wrapped sink is a prefix of what was accepted, in acceptance order, once each
C08_Safe == IsPrefix(delivered, accepted)
\* C10: the capacity is never exceeded; an unbounded / roomy queue never refuses (see EmitTry)
\* (a rendezvous hand-over is modelled as one slot that is only usable while the receiver waits)
C10_Cap == Cap = UNB \/ Len(chan) <= (IF Cap = 0 THEN 1 ELSE Cap)
\* C10 / C09: a producer's steps and the dropping thread's steps are always enabled - emit never waits for the worker
\* or for room, dropping a handle never blocks (whatever the worker, the wrapped sink and the queue are doing)
C10_NeverBlocked ==
  /\ \A h \in Handles : /\ (ppc[h] = "try" => ENABLED EmitTry(h))
                         /\ (ppc[h] = "count" => ENABLED EmitCount(h))
                         /\ (ppc[h] = "ret" => ENABLED EmitRet(h))
  /\ (dpc = "begin" => ENABLED StopTry) /\ (dpc = "full" => ENABLED SpawnHelper) /\ (dpc = "done" => ENABLED DropRet)
\* C15: at quiescence the counters are exact; queued() never wraps
Quiescent == (\A h \in Handles : ppc[h] = "idle") /\ wk \in {"recv", "ended"} /\ chan = <<>> /\ spc = "idle"
C15_Quiescent == Quiescent => submitted = Len(accepted) /\ drained = Len(delivered)
C15_NoWrap == ~wrap
\* C11: the panic counter counts panics
C11_Panics == wk # "unwinding" => panics = wgen
\* C16: the handler log is the errors, in order (checked through the monitor as well)
C16_Handler == HasEH => Len(hlog) <= Len(delivered)
\* C09: the wrapped sink is only released after everything accepted was delivered and the thread ended
C09_Safe == released => (delivered = accepted /\ wk = "ended" /\ handles = {})
\* liveness
C08_Live == \A i \in 1..MaxMetrics : [](Len(accepted) >= i => <>(Len(delivered) >= i))
C09_Live == []((handles = {} /\ dpc = "none") => <>(released /\ delivered = accepted))
NoHandlesForever == [](handles = {} => [](handles = {}))

Export == (Hist /\ released) => PrintT(<<"REPLAY", ToJson([cap |-> Cap, eh |-> HasEH, steps |-> hist])>>)
=============================================================================
