------------------------------ MODULE Client ------------------------------
(***************************************************************************)
(* IMPLEMENTATION MODEL of one metric call on StatsdClient as a protocol,  *)
(* composed with the monitor ClientProp (C03, C17 routing):                *)
(*   Begin     the entry point converts the value (client.rs:29-257)       *)
(*   Reject    BuilderRepr::Error short-circuit (builder.rs:292,390)       *)
(*   Format    MetricFormatter::format, once (builder.rs:274-283,561)      *)
(*   SinkEmit  MetricBackend::send_metric -> sink.emit (client.rs:1000)    *)
(*   Return    try_send returns Ok(metric) / Err (builder.rs:558-567)      *)
(*   Handler   send routes Err to consume_error once (builder.rs:597-606)  *)
(*   MacroGet  get_global_default().unwrap() (macros.rs:364-374)           *)
(* The state carried across calls is the scripted sink's position and the  *)
(* number of refusals (each refusal has a unique message).                 *)
(***************************************************************************)
EXTENDS Naturals, Sequences, FiniteSets, TLC

CONSTANTS MaxCalls, Kinds, HasHandler, GlobalSet, Bug
Forms == {"plain", "tagged", "quiet", "macro"}
P == INSTANCE ClientProp

VARIABLES pc, ncalls, call, text, sres, refusals, res, mon
vars == <<pc, ncalls, call, text, sres, refusals, res, mon>>

TheCfg == [hasprefix |-> TRUE, base |-> "p", dtags |-> <<[bare |-> FALSE, k |-> "dk", v |-> "dv"]>>,
           dcid |-> [has |-> FALSE, v |-> ""], handler |-> HasHandler]
No == [has |-> FALSE, v |-> ""]
MkCall(form, valid) ==
  [form |-> form, key |-> "a", vals |-> IF valid THEN <<"4">> ELSE <<>>, valid |-> valid, kind |-> "c",
   rate |-> No, tags |-> <<>>, cid |-> No, ts |-> No, global_set |-> GlobalSet]
EndEv(panicked, ok, txt, kind, sk, sm) ==
  [panicked |-> panicked, ok |-> ok, text |-> txt, kind |-> kind, srckind |-> sk, srcmsg |-> sm,
   hasstandalone |-> FALSE, standalone |-> "", badfloat |-> 0, evals |-> 2, args |-> 2]

Init == /\ pc = "idle" /\ ncalls = 0 /\ call = MkCall("plain", TRUE) /\ text = "" /\ sres = [ok |-> TRUE, kind |-> "", msg |-> ""]
        /\ refusals = 0 /\ res = "none" /\ mon = P!CInit(TheCfg)

Begin(form, valid) ==
  /\ pc = "idle" /\ ncalls < MaxCalls
  /\ call' = MkCall(form, valid) /\ ncalls' = ncalls + 1
  /\ pc' = IF form = "macro" THEN "macroget" ELSE IF valid THEN "format" ELSE "reject"
  /\ mon' = P!CCall(mon, MkCall(form, valid))
  /\ UNCHANGED <<text, sres, refusals, res>>

MacroGet ==
  /\ pc = "macroget"
  /\ IF GlobalSet THEN pc' = (IF call.valid THEN "format" ELSE "reject") /\ UNCHANGED mon
     ELSE pc' = "idle" /\ mon' = P!CEnd(mon, EndEv(TRUE, FALSE, "", "", "", ""))   \* unwrap() panics
  /\ UNCHANGED <<ncalls, call, text, sres, refusals, res>>

Format ==
  /\ pc = "format" /\ text' = P!G!Line(TheCfg, call) /\ pc' = "emit"
  /\ UNCHANGED <<ncalls, call, sres, refusals, res, mon>>

SinkEmit(o) ==       \* o = "ok" or an io::ErrorKind
  /\ pc = "emit"
  /\ LET r == IF o = "ok" THEN [ok |-> TRUE, kind |-> "", msg |-> ""]
              ELSE [ok |-> FALSE, kind |-> o, msg |-> "refused-" \o ToString(refusals + 1)] IN
     /\ sres' = r /\ refusals' = IF o = "ok" THEN refusals ELSE refusals + 1
     /\ mon' = P!CSRet(P!CEmit(mon, [text |-> text, gv |-> FALSE, gotvals |-> <<>>]), r)
  /\ pc' = IF Bug = "double-emit" /\ o = "ok" /\ res # "again" THEN "emit" ELSE "result"
  /\ res' = IF Bug = "double-emit" THEN "again" ELSE res
  /\ UNCHANGED <<ncalls, call, text>>

Quiet == call.form \in {"quiet", "macro"}

\* valid value: the result / handler after the sink answered
Result ==
  /\ pc = "result"
  /\ LET failed == ~sres.ok /\ Bug # "ok-on-refuse" IN
     IF ~Quiet
     THEN mon' = P!CEnd(mon, IF failed THEN EndEv(FALSE, FALSE, "", "IoError", sres.kind, sres.msg)
                                        ELSE EndEv(FALSE, TRUE, text, "", "", ""))
     ELSE LET m1 == IF failed /\ HasHandler /\ Bug # "swallow-error"
                    THEN P!CEH(mon, [kind |-> "IoError", srckind |-> sres.kind, srcmsg |-> sres.msg]) ELSE mon
              m2 == IF failed /\ HasHandler /\ Bug = "handler-twice"
                    THEN P!CEH(m1, [kind |-> "IoError", srckind |-> sres.kind, srcmsg |-> sres.msg]) ELSE m1
          IN mon' = P!CEnd(m2, EndEv(FALSE, FALSE, "", "", "", ""))
  /\ pc' = "idle" /\ res' = "none"
  /\ UNCHANGED <<ncalls, call, text, sres, refusals>>

\* rejected value: no emit at all
Reject ==
  /\ pc = "reject"
  /\ IF ~Quiet THEN mon' = P!CEnd(mon, EndEv(FALSE, FALSE, "", "InvalidInput", "", ""))
     ELSE mon' = P!CEnd(IF HasHandler THEN P!CEH(mon, [kind |-> "InvalidInput", srckind |-> "", srcmsg |-> ""]) ELSE mon,
                        EndEv(FALSE, FALSE, "", "", "", ""))
  /\ pc' = "idle"
  /\ UNCHANGED <<ncalls, call, text, sres, refusals, res>>

Next == \/ \E f \in Forms, v \in BOOLEAN : Begin(f, v)
        \/ MacroGet \/ Format \/ (\E o \in {"ok"} \cup Kinds : SinkEmit(o)) \/ Result \/ Reject
Spec == Init /\ [][Next]_vars
NoViolation == mon.viol = {}
=============================================================================
