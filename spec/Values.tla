------------------------------ MODULE Values ------------------------------
(***************************************************************************)
(* VALUE CONVERSION RULES of property C02 at reduced word size.            *)
(* A Duration is <<secs, sub>> with NsPerS sub-units ("nanoseconds") per   *)
(* second; timers send whole milliseconds (NsPerMs nanoseconds each,       *)
(* rounded down), histograms whole nanoseconds; a count that does not fit  *)
(* the unsigned word (MaxU) - alone or at any position of a packed list -  *)
(* rejects the whole call.  TLC checks, for ALL Durations and all lists up *)
(* to length 3 at this size,                                               *)
(*   - that the way the code computes the count (as_millis: secs * MsPerS  *)
(*     + sub / NsPerMs, compared in a wider type before narrowing) equals  *)
(*     the specification floor(total / unit),                              *)
(*   - the closed formulas of the boundary classes (largest accepted,      *)
(*     first rejected, ...) against brute force.  The harness instantiates *)
(*     the same formulas at real scale (u64, 10^9 ns/s, 10^6 ns/ms).       *)
(***************************************************************************)
EXTENDS Naturals, Sequences, FiniteSets, TLC, Json

CONSTANTS MaxU,      \* largest value of the unsigned word
          MaxS,      \* largest seconds field of a Duration (the same word)
          NsPerMs, MsPerS
NsPerS == NsPerMs * MsPerS
Durs == (0..MaxS) \X (0..(NsPerS - 1))
Total(d) == d[1] * NsPerS + d[2]

\* specification: the count in the unit, rounded down
SpecCount(d, unit) == Total(d) \div unit
Fits(d, unit) == SpecCount(d, unit) <= MaxU
\* what the code computes (std::time::Duration::as_millis / as_nanos, in 128 bits)
CodeCount(d, unit) == IF unit = 1 THEN d[1] * NsPerS + d[2] ELSE d[1] * MsPerS + d[2] \div NsPerMs

\* a call with a packed list: rejected as a whole if any element does not fit, otherwise element-wise
ListResult(ds, unit) == IF \E i \in 1..Len(ds) : ~Fits(ds[i], unit) THEN [ok |-> FALSE, vals |-> <<>>]
                        ELSE [ok |-> TRUE, vals |-> [i \in 1..Len(ds) |-> SpecCount(ds[i], unit)]]

Units == {1, NsPerMs}
\* closed formulas of the boundary classes, instantiated by the harness at real scale
LargestAccepted(unit) == LET per == NsPerS \div unit IN      \* units per second
                         <<MaxU \div per, (MaxU % per) * unit + (unit - 1)>>
Succ(d) == IF d[2] + 1 < NsPerS THEN <<d[1], d[2] + 1>> ELSE <<d[1] + 1, 0>>
FirstRejected(unit) == Succ(LargestAccepted(unit))

VARIABLE d
Init == d \in Durs
Next == UNCHANGED d
Spec == Init /\ [][Next]_d

CodeMatchesSpec == \A u \in Units : CodeCount(d, u) = SpecCount(d, u)
\* acceptance is downward closed and the formulas name its boundary exactly
Boundary == \A u \in Units :
              LET la == LargestAccepted(u) IN
              /\ (la \in Durs => Fits(la, u))
              /\ (FirstRejected(u) \in Durs => ~Fits(FirstRejected(u), u))
              /\ (Fits(d, u) <=> (la \notin Durs \/ Total(d) <= Total(la)))
\* sub-unit remainders are dropped, never rounded up
Truncates == \A u \in Units : SpecCount(d, u) * u <= Total(d) /\ Total(d) < (SpecCount(d, u) + 1) * u
\* lists keep length and order; one bad element anywhere rejects everything (checked with d at every position)
ListRule == \A u \in Units : \A a \in {<<0, 0>>, <<0, 1>>} : \A pos \in 1..3 :
              LET ds == [i \in 1..3 |-> IF i = pos THEN d ELSE a] IN
              IF Fits(d, u) THEN ListResult(ds, u) = [ok |-> TRUE, vals |-> [i \in 1..3 |-> SpecCount(ds[i], u)]]
              ELSE ListResult(ds, u) = [ok |-> FALSE, vals |-> <<>>]
Classes == [ms |-> [largest_accepted |-> LargestAccepted(NsPerMs), first_rejected |-> FirstRejected(NsPerMs)],
            ns |-> [largest_accepted |-> LargestAccepted(1), first_rejected |-> FirstRejected(1)]]
=============================================================================
