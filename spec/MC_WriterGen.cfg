SPECIFICATION Spec
CONSTANTS
  Cap = 3
  TLen = 1
  MaxLen = 5
  MaxFaults = 2
  MaxOps = 3
  Bug = "none"
  DropLate = FALSE
  Hist = TRUE
INVARIANTS Export NoViolation FillWithinCapacity NoAutoFlush PendIsBuffer
CHECK_DEADLOCK FALSE
