------------------------------- MODULE Line -------------------------------
(***************************************************************************)
(* Character-level instance of the line grammar: strings are sequences of  *)
(* one-character strings over a tiny alphabet that contains every          *)
(* delimiter.  TLC enumerates every CALL SHAPE (entry point x call form x  *)
(* optional sections x prefix shape x value shape x default/call tags x    *)
(* container) as an initial state and checks that an independent           *)
(* recursive-descent parser inverts Render on it (C01 round trip), then    *)
(* exports the shape with the rendered text for replay on the real client. *)
(***************************************************************************)
EXTENDS Naturals, Sequences, FiniteSets, TLC, Json

Chars(s) ==   \* the literal tokens and the tiny strings used by the shapes, as character sequences
  CASE s = "" -> <<>>
    [] s = "." -> <<".">> [] s = ":" -> <<":">> [] s = "|" -> <<"|">> [] s = "#" -> <<"#">>
    [] s = "," -> <<",">> [] s = "@" -> <<"@">> [] s = "T" -> <<"T">>
    [] s = "c" -> <<"c">> [] s = "ms" -> <<"m", "s">> [] s = "g" -> <<"g">> [] s = "m" -> <<"m">>
    [] s = "h" -> <<"h">> [] s = "d" -> <<"d">> [] s = "s" -> <<"s">>
    [] s = "p" -> <<"p">> [] s = "a" -> <<"a">> [] s = "ab" -> <<"a", "b">>
    [] s = ".p" -> <<".", "p">> [] s = ".p.q" -> <<".", "p", ".", "q">>
    [] s = "dk" -> <<"d", "k">> [] s = "dv" -> <<"d", "v">> [] s = "db" -> <<"d", "b">>
    [] s = "k" -> <<"k">> [] s = "v" -> <<"v">> [] s = "b" -> <<"b">> [] s = "e" -> <<"e">> [] s = "w" -> <<"w">>
    [] s = "dc" -> <<"d", "c">> [] s = "oc" -> <<"o", "c">> [] s = "d2" -> <<"d", "2">> [] s = "v2" -> <<"v", "2">> [] s = "v3" -> <<"v", "3">>
    [] s = "1" -> <<"1">> [] s = "-1" -> <<"-", "1">> [] s = "4" -> <<"4">> [] s = "5" -> <<"5">> [] s = "6" -> <<"6">>
    [] s = "4.5" -> <<"4", ".", "5">> [] s = "5.5" -> <<"5", ".", "5">> [] s = "6.5" -> <<"6", ".", "5">>
    [] s = "0.5" -> <<"0", ".", "5">> [] s = "7" -> <<"7">>

G == INSTANCE LineGrammar WITH Empty <- <<>>, Tk <- Chars

RECURSIVE Flat(_)
Flat(cs) == IF cs = <<>> THEN "" ELSE Head(cs) \o Flat(Tail(cs))

(* ------------------------------ the call shapes --------------------------- *)
\* entry point -> <<type code, value class>>
EntryTab == [ count_i64 |-> <<"c", "i64">>, count_i32 |-> <<"c", "i32">>, count_u64 |-> <<"c", "u64">>,
              count_u32 |-> <<"c", "u32">>, incr |-> <<"c", "incr">>, decr |-> <<"c", "decr">>,
              time_u64 |-> <<"ms", "u64">>, time_dur |-> <<"ms", "dur">>, time_vu64 |-> <<"ms", "vu64">>,
              time_vdur |-> <<"ms", "vdur">>, gauge_u64 |-> <<"g", "u64">>, gauge_f64 |-> <<"g", "f64">>,
              meter_u64 |-> <<"m", "u64">>, histogram_u64 |-> <<"h", "u64">>, histogram_f64 |-> <<"h", "f64">>,
              histogram_dur |-> <<"h", "dur">>, histogram_vu64 |-> <<"h", "vu64">>, histogram_vf64 |-> <<"h", "vf64">>,
              histogram_vdur |-> <<"h", "vdur">>, distribution_u64 |-> <<"d", "u64">>, distribution_f64 |-> <<"d", "f64">>,
              distribution_vu64 |-> <<"d", "vu64">>, distribution_vf64 |-> <<"d", "vf64">>, set_i64 |-> <<"s", "i64">> ]
Entries == DOMAIN EntryTab
Kind(e)  == EntryTab[e][1]
Class(e) == EntryTab[e][2]
IsVec(e) == Class(e) \in {"vu64", "vf64", "vdur"}
MacroEntries == Entries \ {"incr", "decr"}
VShapes(e) == IF IsVec(e) THEN {"p0", "p1", "p2", "p3"} ELSE {"single"}
Opts == {"rate", "tags", "cid", "ts"}
\* prefix shapes: "", "p", "p.", "p..", ".."  as <<base, trailing dots>>
Prefixes == {<<"", 0>>, <<"p", 0>>, <<"p", 1>>, <<"p", 2>>, <<"", 2>>, <<".p", 0>>, <<".p.q", 2>>}
\* (dkv_b repeats the KEY of dkv with another value; kv_b repeats the key of kv; dkv_c is a call tag with a default tag's key:
\*  every one of them must be carried, nothing is merged or overwritten)
DTagLists == {<<>>, <<"dkv">>, <<"dbare">>, <<"dkv", "dbare">>, <<"dbare", "dkv">>, <<"dkv", "dbare", "dkv_b">>}
CTagLists == {<<>>, <<"kv">>, <<"bare", "kv2">>, <<"kv", "kv_b", "dkv_c">>}
\* what the sink answers: accept, or refuse with an io::ErrorKind
RefuseKinds == {"refuse-ConnectionRefused", "refuse-Interrupted", "refuse-WouldBlock", "refuse-TimedOut", "refuse-BrokenPipe",
                "refuse-Other", "refuse-WriteZero", "refuse-UnexpectedEof"}

Shape(e, form, opts, p, vs, dt, dcid, key, ct, sink) ==
  [e |-> e, form |-> form, opts |-> opts, base |-> p[1], ndots |-> p[2], vshape |-> vs, dtags |-> dt, dcid |-> dcid,
   key |-> key, ctags |-> ct, sink |-> sink]

\* C01: every entry point x tagged/quiet x every combination of optional sections x prefix x value shape
G1 == UNION {{Shape(e, f, o, p, vs, dt, FALSE, "a", IF "tags" \in o THEN <<"kv", "bare">> ELSE <<>>, "accept") :
                 f \in {"tagged", "quiet"}, o \in SUBSET Opts, p \in Prefixes, vs \in VShapes(e), dt \in {<<>>, <<"dkv">>}}
             : e \in Entries}
\* the plain form has no optional sections of its own
G1p == UNION {{Shape(e, "plain", {}, p, vs, dt, FALSE, "ab", <<>>, "accept") :
                 p \in Prefixes, vs \in VShapes(e), dt \in {<<>>, <<"dkv">>}} : e \in Entries}
\* C04: every entry point x every form x default-tag lists x call-tag lists x container none/default/override/both
G2 == UNION {{Shape(e, f, (IF ct # <<>> THEN {"tags"} ELSE {}) \cup (IF cont \in {"override", "both"} THEN {"cid"} ELSE {}),
                    <<"p", 0>>, IF IsVec(e) THEN "p2" ELSE "single", dt, cont \in {"default", "both"}, "a", ct, "accept") :
                 f \in {"tagged", "quiet"}, dt \in DTagLists, ct \in CTagLists, cont \in {"none", "default", "override", "both"}}
             : e \in Entries}
G2p == UNION {{Shape(e, "plain", {}, <<"p", 0>>, IF IsVec(e) THEN "p2" ELSE "single", dt, dc, "a", <<>>, "accept") :
                 dt \in DTagLists, dc \in BOOLEAN} : e \in Entries}
\* C03: the sink refuses
G3 == {Shape(e, f, {}, <<"p", 0>>, IF IsVec(e) THEN "p1" ELSE "single", <<>>, FALSE, "a", <<>>, k) :
         e \in Entries, f \in {"plain", "tagged", "quiet"}, k \in RefuseKinds}
\* C17: the macros = tagged quiet send on the global client with key => value tags
GM == UNION {{Shape(e, "macro", IF ct # <<>> THEN {"tags"} ELSE {}, <<"p", 1>>, IF IsVec(e) THEN vs ELSE "single", dt, dc, "a", ct, "accept") :
                 vs \in {"p0", "p2"}, dt \in {<<>>, <<"dkv", "dbare">>}, dc \in BOOLEAN,
                 ct \in {<<>>, <<"kv">>, <<"kv", "kv2">>, <<"kv", "kv2", "kv">>}} : e \in MacroEntries}
Shapes == G1 \cup G1p \cup G2 \cup G2p \cup G3 \cup GM

(* ------------------------------ abstract call of a shape ------------------ *)
TagOf(n) == CASE n = "dkv"   -> [bare |-> FALSE, k |-> Chars("dk"), v |-> Chars("dv")]
              [] n = "dbare" -> [bare |-> TRUE,  k |-> <<>>, v |-> Chars("db")]
              [] n = "kv"    -> [bare |-> FALSE, k |-> Chars("k"), v |-> Chars("v")]
              [] n = "bare"  -> [bare |-> TRUE,  k |-> <<>>, v |-> Chars("b")]
              [] n = "kv2"   -> [bare |-> FALSE, k |-> Chars("e"), v |-> Chars("w")]
              [] n = "dkv_b" -> [bare |-> FALSE, k |-> Chars("dk"), v |-> Chars("d2")]
              [] n = "kv_b"  -> [bare |-> FALSE, k |-> Chars("k"), v |-> Chars("v2")]
              [] n = "dkv_c" -> [bare |-> FALSE, k |-> Chars("dk"), v |-> Chars("v3")]
Tags(ns) == [i \in 1..Len(ns) |-> TagOf(ns[i])]
NVals(vs) == CASE vs = "single" -> 1 [] vs = "p0" -> 0 [] vs = "p1" -> 1 [] vs = "p2" -> 2 [] vs = "p3" -> 3
ValTok(e, i) == CASE Class(e) = "incr" -> "1" [] Class(e) = "decr" -> "-1"
                  [] Class(e) \in {"f64", "vf64"} -> (CASE i = 1 -> "4.5" [] i = 2 -> "5.5" [] i = 3 -> "6.5")
                  [] OTHER -> (CASE i = 1 -> "4" [] i = 2 -> "5" [] i = 3 -> "6")
Vals(x) == [i \in 1..NVals(x.vshape) |-> Chars(ValTok(x.e, i))]
Valid(x) == NVals(x.vshape) > 0          \* at least one value: an empty packed list is invalid input

Cfg(x)  == [hasprefix |-> (x.base # "" \/ x.ndots > 0), base |-> Chars(x.base), dtags |-> Tags(x.dtags),
            dcid |-> [has |-> x.dcid, v |-> IF x.dcid THEN Chars("dc") ELSE <<>>]]
Call(x) == [key |-> Chars(x.key), vals |-> Vals(x), kind |-> Kind(x.e),
            \* two rate values: 0.5, and 1 (supplied explicitly, must still be written) when a timestamp is supplied too
            rate |-> [has |-> "rate" \in x.opts, v |-> IF "rate" \in x.opts THEN (IF "ts" \in x.opts THEN Chars("1") ELSE Chars("0.5")) ELSE <<>>],
            tags |-> Tags(x.ctags),
            cid  |-> [has |-> "cid" \in x.opts, v |-> IF "cid" \in x.opts THEN Chars("oc") ELSE <<>>],
            ts   |-> [has |-> "ts" \in x.opts, v |-> IF "ts" \in x.opts THEN Chars("7") ELSE <<>>]]
Abs(x)  == G!Decorate(Cfg(x), Call(x))
Text(x) == G!Render(Abs(x))

(* ------------------------------ an independent parser --------------------- *)
RECURSIVE SplitOn(_, _)
\* split a character sequence on a delimiter character: always at least one (possibly empty) piece
SplitOn(cs, d) ==
  IF \A i \in 1..Len(cs) : cs[i] # d THEN <<cs>>
  ELSE LET i == CHOOSE j \in 1..Len(cs) : cs[j] = d /\ \A k \in 1..(j - 1) : cs[k] # d
       IN <<SubSeq(cs, 1, i - 1)>> \o SplitOn(SubSeq(cs, i + 1, Len(cs)), d)

ParseTag(cs) == LET p == SplitOn(cs, ":") IN
                IF Len(p) = 1 THEN [bare |-> TRUE, k |-> <<>>, v |-> p[1]]
                ELSE [bare |-> FALSE, k |-> p[1], v |-> p[2]]
\* sections after the type code, which must appear in the order  @ # c: T  and at most once each
SectRank(s) == IF s = <<>> THEN 0 ELSE
               CASE s[1] = "@" -> 1 [] s[1] = "#" -> 2 [] (s[1] = "c" /\ Len(s) >= 2 /\ s[2] = ":") -> 3 [] s[1] = "T" -> 4 [] OTHER -> 0
Parse(line) ==
  LET sec  == SplitOn(line, "|")
      head == SplitOn(sec[1], ":")
      rest == SubSeq(sec, 3, Len(sec))
      rk   == [i \in 1..Len(rest) |-> SectRank(rest[i])]
      find(r) == {i \in 1..Len(rest) : rk[i] = r}
      body(r, n) == LET i == CHOOSE j \in find(r) : TRUE IN SubSeq(rest[i], n + 1, Len(rest[i]))
  IN IF Len(sec) < 2 \/ Len(head) < 2 THEN "malformed"
     ELSE IF \E i \in 1..Len(rest) : rk[i] = 0 \/ (i > 1 /\ rk[i - 1] >= rk[i]) THEN "malformed"
     ELSE [ name |-> head[1], vals |-> Tail(head), kind |-> Flat(sec[2]),
            rate |-> IF find(1) # {} THEN [has |-> TRUE, v |-> body(1, 1)] ELSE [has |-> FALSE, v |-> <<>>],
            tags |-> IF find(2) # {} THEN LET ts == SplitOn(body(2, 1), ",") IN [i \in 1..Len(ts) |-> ParseTag(ts[i])] ELSE <<>>,
            cid  |-> IF find(3) # {} THEN [has |-> TRUE, v |-> body(3, 2)] ELSE [has |-> FALSE, v |-> <<>>],
            ts   |-> IF find(4) # {} THEN [has |-> TRUE, v |-> body(4, 1)] ELSE [has |-> FALSE, v |-> <<>>] ]

\* what parsing must give back: exactly the supplied name, value list, kind, rate, tag sequence, container, timestamp
Supplied(x) == LET a == Abs(x) IN
  [ name |-> G!Name(a.hasprefix, a.base, a.key), vals |-> a.vals, kind |-> a.kind, rate |-> a.rate, tags |-> a.tags,
    cid |-> a.cid, ts |-> a.ts ]

(* ------------------------------ the model ---------------------------------- *)
VARIABLE x
Init == x \in Shapes
Next == UNCHANGED x
Spec == Init /\ [][Next]_x

\* C01: for delimiter-free strings, parsing the rendered line yields exactly what was supplied
\* (the tiny strings of the shapes contain '.' only in the prefix part and in float numerals)
RoundTrip == Valid(x) => Parse(Text(x)) = Supplied(x)
\* C01: the standalone constructors render the same text as a client call without options
Standalone == (Valid(x) /\ x.opts = {} /\ x.dtags = <<>> /\ ~x.dcid) =>
                 Text(x) = ((G!Name(Cfg(x).hasprefix, Chars(x.base), Chars(x.key)) \o <<":">>) \o G!JoinWith(Vals(x), <<":">>))
                            \o <<"|">> \o Chars(Kind(x.e))
Export == PrintT(<<"REPLAY", ToJson(x @@ [valid |-> Valid(x), text |-> IF Valid(x) THEN Flat(Text(x)) ELSE "", order |-> 0])>>)
=============================================================================
