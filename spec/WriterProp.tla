---------------------------- MODULE WriterProp ----------------------------
(***************************************************************************)
(* PROPERTY MONITOR for the line-buffering writer and every buffered sink  *)
(* built on it (cadence::ext::MultiLineWriter, Buffered{Udp,Unix,Spy}Sink).*)
(*                                                                         *)
(* The monitor sees OBSERVABLE events only                                 *)
(*   call(op, bytes)    an API call starts (emit / flush / drop)           *)
(*   att(bytes, ok, k)  one write attempt on the underlying socket/writer  *)
(*   ret(ok, n, k)      the API call returns Ok(n) / Err(kind k)           *)
(*   stats(...)         the four I/O counters read through the public API  *)
(*   panic              the call unwound                                   *)
(* and says WHAT must hold (C05 C06 C07 C19 C14, and C20 for panics),      *)
(* nothing about how the code achieves it.  It is a total function on      *)
(* events: broken rules are accumulated in `viol` as <<property, rule>>.   *)
(*                                                                         *)
(* Byte strings are abstract: Empty, \o and BLen(_) are all that is used,  *)
(* so the same module judges TLC's integer sequences (model checking) and  *)
(* hex strings recorded from the real code (trace validation).             *)
(***************************************************************************)
EXTENDS Naturals, Sequences, FiniteSets

CONSTANTS Empty,      \* the empty byte string
          BLen(_)     \* length in bytes of a byte string

RECURSIVE Lines(_, _)
Lines(p, term) == IF p = <<>> THEN Empty ELSE (Head(p) \o term) \o Lines(Tail(p), term)

MonInit(cap, term) ==
  [ cap    |-> cap,        \* configured capacity
    term   |-> term,       \* line terminator bytes
    pend   |-> <<>>,       \* metrics acknowledged with Ok and not yet on the wire, in order
    mode   |-> "idle",     \* idle | emit | flush | drop | dead
    cur    |-> Empty,      \* metric of the emit in progress
    curW   |-> FALSE,      \* cur already went out during this call
    fail   |-> FALSE,      \* some attempt failed during this call
    failK  |-> "",         \* error kind of the last failed attempt of this call
    faults |-> 0,          \* failed attempts since reset
    viol   |-> {} ]

Flag(m, v) == [m EXCEPT !.viol = @ \cup v]

(* ---- an API call starts ------------------------------------------------ *)
MonCall(m, op, bytes) ==
  LET m1 == IF m.mode = "idle" THEN m
            ELSE Flag(m, {<<"C20", "call-while-in-call-or-after-drop">>}) IN
  [m1 EXCEPT !.mode = op, !.cur = bytes, !.curW = FALSE, !.fail = FALSE, !.failK = ""]

(* ---- one write attempt on the underlying writer ------------------------ *)
\* classification of the datagram d:  0 = Lines(pend)   1 = cur alone (oversize)
\*                                    2 = Lines(pend . cur)   9 = unexplained
Req(m)  == BLen(m.cur) + BLen(m.term)
PLen(m) == BLen(Lines(m.pend, m.term))
Class(m, d) ==
  IF m.pend # <<>> /\ d = Lines(m.pend, m.term) THEN 0
  ELSE IF m.mode = "emit" /\ ~m.curW /\ Req(m) > m.cap /\ d = m.cur THEN 1
  ELSE IF m.mode = "emit" /\ ~m.curW /\ Req(m) <= m.cap
          /\ d = Lines(Append(m.pend, m.cur), m.term) THEN 2
  ELSE 9

MonAtt(m, d, ok, kind) ==
  LET k    == Class(m, d)
      req  == Req(m)
      plen == PLen(m)
      \* C05 framing: whole lines only, never above capacity; an oversize metric alone and unmodified
      v05  == IF k = 9 THEN {<<"C05", "datagram-is-not-whole-pending-lines">>}
              ELSE IF k # 1 /\ BLen(d) > m.cap THEN {<<"C05", "datagram-above-capacity">>}
              ELSE {}
      \* C06 conservation: an unexplained datagram duplicates, drops, reorders or alters metrics
      v06  == IF k = 9 THEN {<<"C06", "datagram-not-exactly-the-unwritten-accepted-metrics">>} ELSE {}
      \* C07: the same, once faults have been injected
      v07  == IF k = 9 /\ m.faults > 0 THEN {<<"C07", "bad-datagram-after-failed-write">>} ELSE {}
      \* C19 greedy packing: a write during emit only when the metric does not fit / exactly fills
      need == CASE k = 0 -> (req > m.cap \/ plen + req > m.cap)
                [] k = 1 -> TRUE
                [] k = 2 -> (plen + req = m.cap)
                [] OTHER -> TRUE
      v19  == IF m.mode = "emit" /\ ~need THEN {<<"C19", "write-while-the-metric-still-fitted">>}
              ELSE IF m.mode \notin {"emit", "flush", "drop"} THEN {<<"C19", "write-outside-emit-flush-drop">>}
              ELSE {}
      m1   == Flag(m, v05 \cup v06 \cup v07 \cup v19)
      m2   == IF ok
              THEN [m1 EXCEPT !.pend = IF k \in {0, 2} THEN <<>> ELSE @,
                              !.curW = IF k \in {1, 2} THEN TRUE ELSE @]
              ELSE [m1 EXCEPT !.fail = TRUE, !.failK = kind, !.faults = @ + 1]
  IN m2

(* ---- the API call returns ---------------------------------------------- *)
MonRet(m, ok, n, kind) ==
  LET v ==
    CASE m.mode = "emit" /\ ok ->
           (IF n # BLen(m.cur) THEN {<<"C06", "emit-ok-with-wrong-byte-count">>} ELSE {})
      [] m.mode = "emit" /\ ~ok ->
           (IF ~m.fail THEN {<<"C07", "emit-error-without-failed-write">>} ELSE {})
           \cup (IF m.fail /\ kind # m.failK THEN {<<"C07", "emit-error-is-not-the-socket-error">>} ELSE {})
           \cup (IF m.curW THEN {<<"C07", "emit-error-but-metric-was-written">>} ELSE {})
      [] m.mode = "flush" /\ ok ->
           (IF m.pend # <<>> THEN {<<"C06", "flush-ok-but-metrics-still-buffered">>} ELSE {})
      [] m.mode = "flush" /\ ~ok ->
           (IF ~m.fail THEN {<<"C07", "flush-error-without-failed-write">>} ELSE {})
           \cup (IF m.fail /\ kind # m.failK THEN {<<"C07", "flush-error-is-not-the-socket-error">>} ELSE {})
      [] m.mode = "drop" ->
           (IF ~m.fail /\ m.pend # <<>> THEN {<<"C06", "drop-left-accepted-metrics-unwritten">>} ELSE {})
      [] OTHER -> {<<"C20", "return-without-call">>}
      m1 == Flag(m, v)
      \* an accepted metric that did not go out during its own emit is now pending
      m2 == IF m.mode = "emit" /\ ok /\ ~m.curW THEN [m1 EXCEPT !.pend = Append(@, m.cur)] ELSE m1
  IN [m2 EXCEPT !.mode = IF m.mode = "drop" THEN "dead" ELSE "idle", !.cur = Empty]

(* ---- the call unwound --------------------------------------------------- *)
MonPanic(m) == [Flag(m, {<<"C20", "panic">>, <<"C07", "panic">>}) EXCEPT !.mode = "idle", !.cur = Empty]

(* ---- I/O counters (C14): a separate little monitor ---------------------- *)
\* kept apart from `m` so that exhaustive model checking of the framing rules
\* does not have to carry four unbounded counters
CntInit == [okPk |-> 0, okBy |-> 0, erPk |-> 0, erBy |-> 0, okRet |-> 0, erRet |-> 0, unbuf |-> FALSE, viol |-> {}]
\* an emit of an UNBUFFERED sink returned: "these are the counts ... of the emits that returned Ok and Err respectively"
CntRet(c, unbuffered, isEmit, ok) ==
  IF unbuffered /\ isEmit THEN [c EXCEPT !.unbuf = TRUE, !.okRet = IF ok THEN @ + 1 ELSE @, !.erRet = IF ok THEN @ ELSE @ + 1] ELSE c
CntAtt(c, d, ok) == IF ok THEN [c EXCEPT !.okPk = @ + 1, !.okBy = @ + BLen(d)]
                          ELSE [c EXCEPT !.erPk = @ + 1, !.erBy = @ + BLen(d)]
\* stats() read at a quiescent moment
CntStats(c, bs, ps, bd, pd) ==
  [c EXCEPT !.viol = @ \cup
     (IF ps # c.okPk \/ pd # c.erPk THEN {<<"C14", "packet-counters-do-not-add-up">>} ELSE {})
     \cup (IF bs # c.okBy THEN {<<"C14", "bytes-sent-wrong">>} ELSE {})
     \cup (IF bd # c.erBy THEN {<<"C14", "bytes-dropped-wrong">>} ELSE {})
     \cup (IF c.unbuf /\ (ps # c.okRet \/ pd # c.erRet)
           THEN {<<"C14", "packet-counters-differ-from-the-ok-and-err-results-of-the-emits">>} ELSE {})]

ViolProps(m) == {v[1] : v \in m.viol}
=============================================================================
