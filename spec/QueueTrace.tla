---------------------------- MODULE QueueTrace ----------------------------
(***************************************************************************)
(* TRACE SPECIFICATION for the queuing sink: every event recorded from the *)
(* real code (free-running stress runs and scheduled replays alike) is fed *)
(* to the property monitor QueueProp; the monitor is total, so every line  *)
(* is consumed and what it flagged is printed as one VERDICT line.         *)
(***************************************************************************)
EXTENDS Naturals, Integers, Sequences, FiniteSets, TLC, Json, IOUtils

Rec == ndJsonDeserialize(IOEnv.TRACE)
P == INSTANCE QueueProp WITH NoM <- ""

VARIABLES l, mon, run, bad
vars == <<l, mon, run, bad>>

Init == l = 1 /\ run = 0 /\ bad = {} /\ mon = P!QInit(0, FALSE)

E == Rec[l]
\* (bounded PER PROPERTY, so that a flood of flags of one property cannot hide another property's)
Note(b, vs) == b \cup { <<v[1], v[2], run, l>> : v \in { w \in vs : Cardinality({x \in b : x[1] = w[1]}) < 120 } }
Step(m2) == /\ mon' = m2 /\ bad' = Note(bad, m2.viol \ mon.viol) /\ l' = l + 1 /\ UNCHANGED run

Reset == /\ E.ev = "reset" /\ mon' = P!QInit(E.cap, E.eh) /\ run' = l /\ l' = l + 1 /\ UNCHANGED bad
ECall == E.ev = "ecall"   /\ Step(P!QECall(mon, E.h, E.m, E.tid))
ERet  == E.ev = "eret"    /\ Step(P!QERet(mon, E.m, E.ok, E.n, E.msg, E.len))
EPan  == E.ev = "epanic"  /\ Step(P!QEPanic(mon, E.m))
EHang == E.ev = "ehang"   /\ Step(P!QEHang(mon, E.m))
WEnt  == E.ev = "wenter"  /\ Step(P!QWEnter(mon, E.m, E.tid))
FC    == E.ev = "fcall"    /\ Step(P!QFCall(mon, E.tid))
WOt   == E.ev = "wother"  /\ Step(P!QWOther(mon, E.tid))
WLv   == E.ev = "wleave"  /\ Step(P!QWLeave(mon, E.m, E.o, E.msg))
EH    == E.ev = "eh"      /\ Step(P!QEH(mon, E.msg, E.tid))
Cl    == E.ev = "clone"   /\ Step(P!QClone(mon, E.h, E.h2))
DB    == E.ev = "dropbegin" /\ Step(P!QDropBegin(mon, E.h, E.tid))
DE    == E.ev = "dropend"   /\ Step(P!QDropEnd(mon, E.h, E.panicked))
DH    == E.ev = "drophang"  /\ Step(P!QDropHang(mon, E.h))
WD    == E.ev = "wdropped"  /\ Step(P!QWDropped(mon))
SB    == E.ev = "sbegin"    /\ Step(P!QSampleBegin(mon))
Sm    == E.ev = "sample"    /\ Step(P!QSample(mon, E.s, E.d, E.q, E.p))
SP    == E.ev = "spanic"    /\ Step(P!QSamplePanic(mon))
Bk    == E.ev = "bulk"      /\ Step(P!QBulk(mon, E.okn, E.deln, E.refn))
DLat  == E.ev = "droplat"   /\ Step(P!QDropLatency(mon, E.n, E.min))
Lat   == E.ev = "latency"   /\ Step(P!QLatency(mon, E.nref, E.minref, E.nok, E.minok))
Qu    == E.ev = "quiesce"   /\ Step(P!QQuiesce(mon, E.s, E.d, E.q, E.p))
End   == E.ev = "end"       /\ Step(P!QEnd(mon, E.released, E.exited))
\* hook points and harness notes carry no obligation for the monitor
Skip  == E.ev \in {"hook", "note", "abandon", "step"} /\ Step(mon)

Next == l <= Len(Rec) /\ (Reset \/ ECall \/ ERet \/ EPan \/ EHang \/ WEnt \/ FC \/ WOt \/ WLv \/ EH \/ Cl \/ DB \/ DE \/ DH
                          \/ WD \/ SB \/ Sm \/ SP \/ Bk \/ Lat \/ DLat \/ Qu \/ End \/ Skip)
Spec == Init /\ [][Next]_vars

Verdict == l = Len(Rec) + 1 =>
             PrintT(<<"VERDICT", ToJson([consumed |-> l - 1, total |-> Len(Rec), bad |-> bad])>>)
Consumed == TLCGet("stats").diameter - 1 = Len(Rec)
=============================================================================
