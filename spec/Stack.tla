------------------------------- MODULE Stack -------------------------------
(***************************************************************************)
(* COMPOSITION: StatsdClient -> QueuingMetricSink -> buffered sink -> wire *)
(* (the stack the integration tests build and nobody reads back).          *)
(*   Emit      client call: format + QueuingMetricSink::emit (try_send)    *)
(*   Deliver   worker thread: recv + wrapped.emit(m) under the sink's lock *)
(*   Flush     StatsdClient::flush -> QueuingMetricSink::flush ->          *)
(*             wrapped.flush() ON THE CALLER'S THREAD (queuing.rs:273):    *)
(*             it does not wait for what is still queued                   *)
(*   DropClient / StopMarker / WorkerExit / Release: the last handle goes, *)
(*             the queue is drained, the worker stops, the wrapped sink is *)
(*             dropped and BufWriter's Drop writes what is left            *)
(* End-to-end statements checked here (C08 o C09 o C06 o C05):             *)
(*   - once released, every metric the client call accepted is on the wire *)
(*     exactly once, framed, buffered ones in acceptance order;            *)
(*   - after the drop the release eventually happens (liveness);           *)
(*   - a flush that returns while metrics are still QUEUED has not written *)
(*     them: flush concerns what reached the buffered sink (C06's wording).*)
(* Bug: "drop-no-flush" (release without the final write), "flush-noop"    *)
(* (QueuingMetricSink::flush returns Ok without delegating).               *)
(***************************************************************************)
EXTENDS Naturals, Sequences, FiniteSets, TLC

CONSTANTS QCap, Cap, MaxMetrics, Lens, Bug

VARIABLES nextM, len, chan, accepted, pend, wire, alive, stopSent, wk, released, flushedAt
vars == <<nextM, len, chan, accepted, pend, wire, alive, stopSent, wk, released, flushedAt>>
STOP == 0

Init == /\ nextM = 1 /\ len = <<>> /\ chan = <<>> /\ accepted = <<>> /\ pend = <<>> /\ wire = <<>>
        /\ alive = TRUE /\ stopSent = FALSE /\ wk = "run" /\ released = FALSE /\ flushedAt = <<>>

Size(m) == len[m] + 1
PLen == LET S[i \in 0..Len(pend)] == IF i = 0 THEN 0 ELSE S[i - 1] + Size(pend[i]) IN S[Len(pend)]

Emit(l) == /\ alive /\ nextM <= MaxMetrics
           /\ len' = Append(len, l) /\ nextM' = nextM + 1
           /\ IF Len(chan) < QCap THEN chan' = Append(chan, nextM) /\ accepted' = Append(accepted, nextM)
                                  ELSE UNCHANGED <<chan, accepted>>
           /\ UNCHANGED <<pend, wire, alive, stopSent, wk, released, flushedAt>>

\* the buffered sink's emit (fault free), one critical section
SinkEmit(m) == IF Size(m) > Cap THEN wire' = Append(wire, <<m>>) /\ UNCHANGED pend
               ELSE IF PLen + Size(m) > Cap THEN wire' = Append(wire, pend) /\ pend' = <<m>>
               ELSE pend' = Append(pend, m) /\ UNCHANGED wire

Deliver == /\ wk = "run" /\ chan # <<>> /\ Head(chan) # STOP
           /\ SinkEmit(Head(chan)) /\ chan' = Tail(chan)
           /\ UNCHANGED <<nextM, len, accepted, alive, stopSent, wk, released, flushedAt>>

Flush == /\ alive
         /\ IF Bug = "flush-noop" THEN UNCHANGED <<pend, wire>>
            ELSE /\ wire' = IF pend # <<>> THEN Append(wire, pend) ELSE wire
                 /\ pend' = <<>>
         /\ flushedAt' = <<[queued |-> {chan[i] : i \in 1..Len(chan)}, pend |-> pend']>>   \* the last flush only (keeps the model finite)
         /\ UNCHANGED <<nextM, len, chan, accepted, alive, stopSent, wk, released>>

DropClient == /\ alive /\ alive' = FALSE
              /\ UNCHANGED <<nextM, len, chan, accepted, pend, wire, stopSent, wk, released, flushedAt>>
\* the stop marker is queued behind everything accepted (helper thread when the queue is full)
StopMarker == /\ ~alive /\ ~stopSent /\ Len(chan) < QCap
              /\ chan' = Append(chan, STOP) /\ stopSent' = TRUE
              /\ UNCHANGED <<nextM, len, accepted, pend, wire, alive, wk, released, flushedAt>>
WorkerExit == /\ wk = "run" /\ chan # <<>> /\ Head(chan) = STOP
              /\ chan' = Tail(chan) /\ wk' = "ended"
              /\ UNCHANGED <<nextM, len, accepted, pend, wire, alive, stopSent, released, flushedAt>>
\* the wrapped sink is dropped: BufWriter's Drop writes what is left
Release == /\ wk = "ended" /\ ~alive /\ ~released
           /\ released' = TRUE
           /\ IF Bug = "drop-no-flush" THEN UNCHANGED <<wire, pend>>
              ELSE wire' = (IF pend # <<>> THEN Append(wire, pend) ELSE wire) /\ pend' = <<>>
           /\ UNCHANGED <<nextM, len, chan, accepted, alive, stopSent, wk, flushedAt>>

Next == (\E l \in Lens : Emit(l)) \/ Deliver \/ Flush \/ DropClient \/ StopMarker \/ WorkerExit \/ Release
Spec == Init /\ [][Next]_vars
LiveSpec == Spec /\ WF_vars(Deliver) /\ WF_vars(StopMarker) /\ WF_vars(WorkerExit) /\ WF_vars(Release)

RECURSIVE Flat(_)
Flat(ds) == IF ds = <<>> THEN <<>> ELSE Head(ds) \o Flat(Tail(ds))
OnWire == Flat(wire)
Fits(m) == Size(m) <= Cap
Sub(s, P(_)) == SelectSeq(s, P)
\* C05 at the bottom of the stack: no datagram above capacity except a single oversize metric
Framing == \A i \in 1..Len(wire) :
             LET d == wire[i] S[k \in 0..Len(d)] == IF k = 0 THEN 0 ELSE S[k - 1] + Size(d[k]) IN
             S[Len(d)] <= Cap \/ (Len(d) = 1 /\ ~Fits(d[1]))
\* nothing is ever on the wire twice, and only what was accepted
NoDupNoAlien == /\ \A i, j \in 1..Len(OnWire) : i # j => OnWire[i] # OnWire[j]
                /\ \A i \in 1..Len(OnWire) : \E j \in 1..Len(accepted) : accepted[j] = OnWire[i]
\* end to end: once released, every accepted metric is on the wire, buffered ones in acceptance order
EndToEnd == released =>
              /\ {OnWire[i] : i \in 1..Len(OnWire)} = {accepted[i] : i \in 1..Len(accepted)}
              /\ Sub(OnWire, Fits) = Sub(accepted, Fits)
\* a successful flush leaves nothing in the BUFFER (what is still queued is not its business)
FlushEmpties == \A i \in 1..Len(flushedAt) : flushedAt[i].pend = <<>>
Eventually == [](~alive => <>released)
=============================================================================
