------------------------------- MODULE Stack -------------------------------
(***************************************************************************)
(* COMPOSITION: StatsdClient -> QueuingMetricSink -> buffered sink -> wire *)
(* (the stack the integration tests build and nobody reads back).          *)
(*   Emit      client call: format + QueuingMetricSink::emit (try_send)    *)
(*   Recv/Hand worker thread: recv, then wrapped.emit(m) under the sink's  *)
(*             lock - two steps: between them the worker HOLDS a metric    *)
(*             that is neither queued nor buffered, while other threads    *)
(*             emit and flush                                              *)
(*   Flush     StatsdClient::flush -> QueuingMetricSink::flush ->          *)
(*             wrapped.flush() ON THE CALLER'S THREAD (queuing.rs:273):    *)
(*             it does not wait for what is still queued                   *)
(*   DropClient / StopMarker / WorkerExit / Release: the last handle goes, *)
(*             the queue is drained, the worker stops, the wrapped sink is *)
(*             dropped and BufWriter's Drop writes what is left            *)
(* End-to-end statements checked here (C08 o C09 o C06 o C05):             *)
(*   - once released, every metric the client call accepted is on the wire *)
(*     exactly once, framed, buffered ones in acceptance order;            *)
(*   - after the drop the release eventually happens (liveness);           *)
(*   - a flush that returns while metrics are still QUEUED has not written *)
(*     them: flush concerns what reached the buffered sink (C06's wording).*)
(* Bug: "drop-no-flush" (release without the final write), "flush-noop"    *)
(* (QueuingMetricSink::flush returns Ok without delegating), "flush-drains"*)
(* (flush hands the queued metrics to the wrapped sink on the caller's     *)
(* thread: a second consumer - the order is lost, seeded change S68).      *)
(***************************************************************************)
EXTENDS Naturals, Sequences, FiniteSets, TLC

CONSTANTS QCap, Cap, MaxMetrics, Lens, Bug

VARIABLES nextM, len, chan, accepted, pend, wire, alive, stopSent, wk, released, flushedAt,
          cur,      \* the metric the worker has taken off the queue and not yet handed to the wrapped sink (0 = none)
          handed    \* history: what reached the wrapped sink, in order
vars == <<nextM, len, chan, accepted, pend, wire, alive, stopSent, wk, released, flushedAt, cur, handed>>
STOP == 0

Init == /\ nextM = 1 /\ len = <<>> /\ chan = <<>> /\ accepted = <<>> /\ pend = <<>> /\ wire = <<>>
        /\ alive = TRUE /\ stopSent = FALSE /\ wk = "run" /\ released = FALSE /\ flushedAt = <<>>
        /\ cur = 0 /\ handed = <<>>

Size(m) == len[m] + 1
PLen == LET S[i \in 0..Len(pend)] == IF i = 0 THEN 0 ELSE S[i - 1] + Size(pend[i]) IN S[Len(pend)]

Emit(l) == /\ alive /\ nextM <= MaxMetrics
           /\ len' = Append(len, l) /\ nextM' = nextM + 1
           /\ IF Len(chan) < QCap THEN chan' = Append(chan, nextM) /\ accepted' = Append(accepted, nextM)
                                  ELSE UNCHANGED <<chan, accepted>>
           /\ UNCHANGED <<pend, wire, alive, stopSent, wk, released, flushedAt, cur, handed>>

\* the buffered sink's emit (fault free), one critical section, as a function of (buffer, wire)
SeqLen(p) == LET S[i \in 0..Len(p)] == IF i = 0 THEN 0 ELSE S[i - 1] + Size(p[i]) IN S[Len(p)]
SinkF(st, m) == IF Size(m) > Cap THEN [pend |-> st.pend, wire |-> Append(st.wire, <<m>>)]
                ELSE IF SeqLen(st.pend) + Size(m) > Cap THEN [pend |-> <<m>>, wire |-> Append(st.wire, st.pend)]
                ELSE [pend |-> Append(st.pend, m), wire |-> st.wire]
RECURSIVE SinkAll(_, _)
SinkAll(st, ms) == IF ms = <<>> THEN st ELSE SinkAll(SinkF(st, Head(ms)), Tail(ms))

Recv == /\ wk = "run" /\ cur = 0 /\ chan # <<>> /\ Head(chan) # STOP
        /\ cur' = Head(chan) /\ chan' = Tail(chan)
        /\ UNCHANGED <<nextM, len, accepted, pend, wire, alive, stopSent, wk, released, flushedAt, handed>>
Hand == /\ cur # 0
        /\ LET st == SinkF([pend |-> pend, wire |-> wire], cur) IN pend' = st.pend /\ wire' = st.wire
        /\ handed' = Append(handed, cur) /\ cur' = 0
        /\ UNCHANGED <<nextM, len, chan, accepted, alive, stopSent, wk, released, flushedAt>>

Flush == /\ alive
         /\ IF Bug = "flush-noop" THEN UNCHANGED <<pend, wire, chan, handed>>
            ELSE IF Bug = "flush-drains"
            THEN \* model mutant: the caller first hands everything that is queued to the wrapped sink itself
                 LET st == SinkAll([pend |-> pend, wire |-> wire], chan) IN
                 /\ wire' = IF st.pend # <<>> THEN Append(st.wire, st.pend) ELSE st.wire
                 /\ pend' = <<>> /\ handed' = handed \o chan /\ chan' = <<>>
            ELSE /\ wire' = IF pend # <<>> THEN Append(wire, pend) ELSE wire
                 /\ pend' = <<>> /\ UNCHANGED <<chan, handed>>
         /\ flushedAt' = <<[queued |-> {chan'[i] : i \in 1..Len(chan')}, pend |-> pend']>>   \* the last flush only (keeps the model finite)
         /\ UNCHANGED <<nextM, len, accepted, alive, stopSent, wk, released, cur>>

DropClient == /\ alive /\ alive' = FALSE
              /\ UNCHANGED <<nextM, len, chan, accepted, pend, wire, stopSent, wk, released, flushedAt, cur, handed>>
\* the stop marker is queued behind everything accepted (helper thread when the queue is full)
StopMarker == /\ ~alive /\ ~stopSent /\ Len(chan) < QCap
              /\ chan' = Append(chan, STOP) /\ stopSent' = TRUE
              /\ UNCHANGED <<nextM, len, accepted, pend, wire, alive, wk, released, flushedAt, cur, handed>>
WorkerExit == /\ wk = "run" /\ cur = 0 /\ chan # <<>> /\ Head(chan) = STOP
              /\ chan' = Tail(chan) /\ wk' = "ended"
              /\ UNCHANGED <<nextM, len, accepted, pend, wire, alive, stopSent, released, flushedAt, cur, handed>>
\* the wrapped sink is dropped: BufWriter's Drop writes what is left
Release == /\ wk = "ended" /\ ~alive /\ ~released
           /\ released' = TRUE
           /\ IF Bug = "drop-no-flush" THEN UNCHANGED <<wire, pend>>
              ELSE wire' = (IF pend # <<>> THEN Append(wire, pend) ELSE wire) /\ pend' = <<>>
           /\ UNCHANGED <<nextM, len, chan, accepted, alive, stopSent, wk, flushedAt, cur, handed>>

Next == (\E l \in Lens : Emit(l)) \/ Recv \/ Hand \/ Flush \/ DropClient \/ StopMarker \/ WorkerExit \/ Release
Spec == Init /\ [][Next]_vars
LiveSpec == Spec /\ WF_vars(Recv) /\ WF_vars(Hand) /\ WF_vars(StopMarker) /\ WF_vars(WorkerExit) /\ WF_vars(Release)

RECURSIVE Flat(_)
Flat(ds) == IF ds = <<>> THEN <<>> ELSE Head(ds) \o Flat(Tail(ds))
OnWire == Flat(wire)
Fits(m) == Size(m) <= Cap
Sub(s, P(_)) == SelectSeq(s, P)
\* C05 at the bottom of the stack: no datagram above capacity except a single oversize metric
Framing == \A i \in 1..Len(wire) :
             LET d == wire[i] S[k \in 0..Len(d)] == IF k = 0 THEN 0 ELSE S[k - 1] + Size(d[k]) IN
             S[Len(d)] <= Cap \/ (Len(d) = 1 /\ ~Fits(d[1]))
\* nothing is ever on the wire twice, and only what was accepted
NoDupNoAlien == /\ \A i, j \in 1..Len(OnWire) : i # j => OnWire[i] # OnWire[j]
                /\ \A i \in 1..Len(OnWire) : \E j \in 1..Len(accepted) : accepted[j] = OnWire[i]
\* end to end: once released, every accepted metric is on the wire, buffered ones in acceptance order
EndToEnd == released =>
              /\ {OnWire[i] : i \in 1..Len(OnWire)} = {accepted[i] : i \in 1..Len(accepted)}
              /\ Sub(OnWire, Fits) = Sub(accepted, Fits)
\* one consumer: what reaches the wrapped sink is a prefix of what was accepted, in acceptance order (C08 inside the stack;
\* with several threads on one client this is what keeps each thread's metrics in its program order, C12)
HandOverOrder == /\ Len(handed) <= Len(accepted)
                 /\ \A i \in 1..Len(handed) : handed[i] = accepted[i]
\* a successful flush leaves nothing in the BUFFER (what is still queued is not its business)
FlushEmpties == \A i \in 1..Len(flushedAt) : flushedAt[i].pend = <<>>
Eventually == [](~alive => <>released)
=============================================================================
