SPECIFICATION Spec
INVARIANTS Export
CHECK_DEADLOCK FALSE
