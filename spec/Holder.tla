------------------------------ MODULE Holder ------------------------------
(***************************************************************************)
(* IMPLEMENTATION MODEL of cadence_macros::SingletonHolder<T> (state.rs)   *)
(* under a view-based release/acquire memory model with STALE loads,       *)
(* composed with the monitor HolderProp.  One action per atomic operation  *)
(* / cell access of the code:                                              *)
(*   Cas       state.compare_exchange(UNSET, LOADING, OrdCasS, OrdCasF) :66 *)
(*   WriteCell *self.value.get() = Some(Arc::new(val))                  :78 *)
(*   Store     state.store(COMPLETE, OrdStore)                          :83 *)
(*   Load      state.load(OrdLoad) in is_set()                          :61 *)
(*   ReadCell  (&*self.value.get()).clone() in get()                    :57 *)
(* The four orderings are CONSTANTS: the checks read them from a probe run *)
(* of the real code under the cfg(cadence_verif) shim, so the model that   *)
(* TLC explores carries the orderings actually written in the source.      *)
(***************************************************************************)
EXTENDS Naturals, Sequences, FiniteSets, TLC, Json

CONSTANTS T, Prog,                       \* threads and their programs: sequences over {"set","get","is_set"}
          OrdCasS, OrdCasF, OrdStore, OrdLoad,
          Stale,                          \* TRUE: loads may read any write not older than the last one seen
          Hist

UNSET == 0  LOADING == 1  COMPLETE == 2
P == INSTANCE HolderProp

VARIABLES mon,       \* memory-model + property monitor (modification order, clocks, API history)
          seen,      \* per thread: position in mo of the newest write it has observed (coherence)
          pc, ip,    \* per thread: control point / index into its program
          cell,      \* content of the UnsafeCell: id of the value written (0 = None)
          res,       \* per thread: results of its completed calls
          winners, hist
vars == <<mon, seen, pc, ip, cell, res, winners, hist>>

\* the value a set call of thread t at program position i installs
IdOf(t, i) == t * 10 + i
H(e) == hist' = IF Hist THEN Append(hist, e) ELSE hist
Mo == mon.mo

Init == /\ mon = P!HInit /\ seen = [t \in T |-> 1]
        /\ pc = [t \in T |-> "idle"] /\ ip = [t \in T |-> 1]
        /\ cell = 0 /\ res = [t \in T |-> <<>>] /\ winners = {} /\ hist = <<>>

Op(t) == Prog[t][ip[t]]
Done(t, r) == /\ ip' = [ip EXCEPT ![t] = @ + 1] /\ res' = [res EXCEPT ![t] = Append(@, r)]

Start(t) ==
  /\ pc[t] = "idle" /\ ip[t] <= Len(Prog[t])
  /\ pc' = [pc EXCEPT ![t] = IF Op(t) = "set" THEN "cas" ELSE "load"]
  /\ mon' = IF Op(t) = "set" THEN P!HCallSet(mon, t, IdOf(t, ip[t])) ELSE P!HCallRead(mon, t)
  /\ H([a |-> "Start", t |-> t, op |-> Op(t), id |-> IF Op(t) = "set" THEN IdOf(t, ip[t]) ELSE 0])
  /\ UNCHANGED <<seen, ip, cell, res, winners>>

CasOk(t) ==           \* an RMW always reads the last write in the modification order
  /\ pc[t] = "cas" /\ Mo[Len(Mo)].val = UNSET
  /\ mon' = P!HCasOk(mon, t, OrdCasS, LOADING)
  /\ seen' = [seen EXCEPT ![t] = Len(Mo) + 1]
  /\ pc' = [pc EXCEPT ![t] = "write"] /\ winners' = winners \cup {t}
  /\ H([a |-> "CasOk", t |-> t])
  /\ UNCHANGED <<ip, cell, res>>

CasFail(t) ==         \* failure = a load (with the failure ordering) of a value that is not UNSET
  /\ pc[t] = "cas"
  /\ \E i \in (IF Stale THEN seen[t] ELSE Len(Mo))..Len(Mo) :
       /\ Mo[i].val # UNSET
       /\ seen' = [seen EXCEPT ![t] = i]
       /\ mon' = P!HRetSet(P!HLoad(mon, t, OrdCasF, i), t, IdOf(t, ip[t]))
       /\ H([a |-> "CasFail", t |-> t, latest |-> (i = Len(Mo))])
  /\ pc' = [pc EXCEPT ![t] = "idle"] /\ Done(t, [k |-> "ignored", v |-> 0])
  /\ UNCHANGED <<cell, winners>>

WriteCell(t) ==
  /\ pc[t] = "write"
  /\ mon' = P!HCellW(mon, t) /\ cell' = IdOf(t, ip[t])
  /\ pc' = [pc EXCEPT ![t] = "store"]
  /\ H([a |-> "WriteCell", t |-> t])
  /\ UNCHANGED <<seen, ip, res, winners>>

Store(t) ==
  /\ pc[t] = "store"
  /\ mon' = P!HRetSet(P!HStore(mon, t, OrdStore, COMPLETE), t, IdOf(t, ip[t]))
  /\ seen' = [seen EXCEPT ![t] = Len(Mo) + 1]
  /\ pc' = [pc EXCEPT ![t] = "idle"] /\ Done(t, [k |-> "set", v |-> 0])
  /\ H([a |-> "Store", t |-> t])
  /\ UNCHANGED <<cell, winners>>

Load(t) ==
  /\ pc[t] = "load"
  /\ \E i \in (IF Stale THEN seen[t] ELSE Len(Mo))..Len(Mo) :
       /\ seen' = [seen EXCEPT ![t] = i]
       /\ LET m1 == P!HLoad(mon, t, OrdLoad, i) IN
          IF Mo[i].val = COMPLETE
          THEN IF Op(t) = "get"
               THEN /\ pc' = [pc EXCEPT ![t] = "read"] /\ mon' = m1 /\ UNCHANGED <<ip, res>>
               ELSE /\ pc' = [pc EXCEPT ![t] = "idle"] /\ mon' = P!HRetSome(m1, t, 0)
                    /\ Done(t, [k |-> "true", v |-> 0])
          ELSE /\ pc' = [pc EXCEPT ![t] = "idle"] /\ mon' = P!HRetNone(m1, t)
               /\ Done(t, [k |-> IF Op(t) = "get" THEN "none" ELSE "false", v |-> 0])
       /\ H([a |-> "Load", t |-> t, val |-> Mo[i].val, latest |-> (i = Len(Mo))])
  /\ UNCHANGED <<cell, winners>>

ReadCell(t) ==
  /\ pc[t] = "read"
  /\ mon' = P!HRetSome(P!HCellR(mon, t), t, cell)
  /\ pc' = [pc EXCEPT ![t] = "idle"] /\ Done(t, [k |-> "some", v |-> cell])
  /\ H([a |-> "ReadCell", t |-> t, v |-> cell])
  /\ UNCHANGED <<seen, cell, winners>>

Next == \E t \in T : Start(t) \/ CasOk(t) \/ CasFail(t) \/ WriteCell(t) \/ Store(t) \/ Load(t) \/ ReadCell(t)
Spec == Init /\ [][Next]_vars

(* ------------------------------ properties -------------------------------- *)
NoViolation == mon.viol = {}
OneWinner   == Cardinality(winners) <= 1
\* every get returns none or the winner's value, always the same one
GetSound == \A t \in T : \A k \in 1..Len(res[t]) :
              res[t][k].k = "some" => (res[t][k].v # 0 /\ \E w \in winners : res[t][k].v \div 10 = w)
AllDone == \A t \in T : pc[t] = "idle" /\ ip[t] > Len(Prog[t])
Export == (Hist /\ AllDone) => PrintT(<<"REPLAY", ToJson([steps |-> hist, res |-> res])>>)
=============================================================================
