---------------------------- MODULE MC_Client ----------------------------
EXTENDS Client
MCKinds == {"ConnectionRefused", "WouldBlock", "Interrupted"}
=============================================================================
