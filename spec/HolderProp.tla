---------------------------- MODULE HolderProp ----------------------------
(***************************************************************************)
(* PROPERTY MONITOR for the global client holder (C18).  It interprets ANY *)
(* sequence of operations on one atomic location and one non-atomic cell,  *)
(* not a particular algorithm:                                             *)
(*   cas(t, so, fo, ok, rf, new) / store(t, o, val) / load(t, o, rf)       *)
(*       atomic operations with the memory Ordering they were GIVEN and    *)
(*       the position rf in the modification order they read from          *)
(*   cellw(t) / cellr(t)   write / read of the UnsafeCell                   *)
(*   call(t, op, id) / ret(t, op, r, id)   API level: set(id), get, is_set *)
(* Happens-before is computed with vector clocks under the C++/Rust        *)
(* release/acquire rules: a release store/RMW publishes the writer's       *)
(* clock, an RMW continues the release sequence it reads from, a plain     *)
(* store starts a new one, an acquire load/RMW joins the clock of the      *)
(* write it reads from.  A cell access that is not ordered after the       *)
(* previous conflicting access is a DATA RACE.                             *)
(***************************************************************************)
EXTENDS Naturals, Sequences, FiniteSets

CONSTANT T          \* thread identifiers

IsAcq(o) == o \in {"Acquire", "AcqRel", "SeqCst"}
IsRel(o) == o \in {"Release", "AcqRel", "SeqCst"}
Zero == [u \in T |-> 0]
Join(a, b) == [u \in T |-> IF a[u] >= b[u] THEN a[u] ELSE b[u]]

HInit ==
  [ mo   |-> << [val |-> 0, msg |-> Zero] >>,   \* modification order of the atomic: value + published clock
    vc   |-> [t \in T |-> [u \in T |-> IF u = t THEN 1 ELSE 0]],
    wr   |-> [t |-> 0, c |-> 0],                \* epoch of the last cell write (0 = never written)
    rd   |-> Zero,                              \* per thread: epoch of its last cell read
    nwr  |-> 0,                                 \* number of cell writes
    \* API level
    started |-> {},       \* ids of set calls that have started
    done    |-> {},       \* ids of set calls that have returned
    before  |-> {},       \* <<a, b>>: set(a) returned before set(b) started
    seenId  |-> 0,        \* the id every Some so far carried (0 = none yet)
    someRet |-> FALSE,    \* a get/is_set already returned Some/true
    sawSome |-> [t \in T |-> FALSE],   \* thread t itself already got Some/true (per-thread coherence)
    viol |-> {} ]

Flag(h, v) == [h EXCEPT !.viol = @ \cup v]
Tick(h, t) == [h EXCEPT !.vc[t][t] = @ + 1]

(* ---- atomic operations --------------------------------------------------- *)
\* a successful compare-exchange (RMW): reads the last element of mo
HCasOk(h, t, so, new) ==
  LET last == h.mo[Len(h.mo)]
      acq  == IF IsAcq(so) THEN Join(h.vc[t], last.msg) ELSE h.vc[t]
      me   == [acq EXCEPT ![t] = @ + 1]
      msg  == IF IsRel(so) THEN Join(acq, last.msg) ELSE last.msg   \* continues the release sequence
  IN [h EXCEPT !.mo = Append(@, [val |-> new, msg |-> msg]), !.vc[t] = me]

\* a failed compare-exchange is a load with the failure ordering
HLoad(h, t, o, rf) ==
  IF rf \notin 1..Len(h.mo) THEN Flag(h, {<<"C18", "harness-error-read-from-unknown-write">>})
  ELSE [h EXCEPT !.vc[t] = IF IsAcq(o) THEN Join(@, h.mo[rf].msg) ELSE @]

HStore(h, t, o, val) ==
  LET me == [h.vc[t] EXCEPT ![t] = @ + 1] IN
  [h EXCEPT !.mo = Append(@, [val |-> val, msg |-> IF IsRel(o) THEN h.vc[t] ELSE Zero]), !.vc[t] = me]

(* ---- the non-atomic cell ---------------------------------------------------- *)
HCellW(h, t) ==
  LET racy == (h.wr.t # 0 /\ h.wr.t # t /\ h.wr.c > h.vc[t][h.wr.t])
              \/ (\E u \in T \ {t} : h.rd[u] > h.vc[t][u])
      v == (IF racy THEN {<<"C18", "data-race-cell-write-not-ordered-after-previous-access">>} ELSE {})
           \cup (IF h.nwr > 0 THEN {<<"C18", "cell-written-more-than-once">>} ELSE {})
  IN [Flag(h, v) EXCEPT !.wr = [t |-> t, c |-> h.vc[t][t]], !.nwr = @ + 1]

HCellR(h, t) ==
  LET racy == h.wr.t # 0 /\ h.wr.t # t /\ h.wr.c > h.vc[t][h.wr.t]
      v == (IF racy THEN {<<"C18", "data-race-cell-read-not-ordered-after-the-write">>} ELSE {})
           \cup (IF h.wr.t = 0 THEN {<<"C18", "cell-read-before-any-write">>} ELSE {})
  IN [Flag(h, v) EXCEPT !.rd[t] = h.vc[t][t]]

(* ---- API level --------------------------------------------------------------- *)
HCallSet(h, t, id) ==
  [h EXCEPT !.started = @ \cup {id}, !.before = @ \cup {<<a, id>> : a \in h.done}]
HRetSet(h, t, id) == [h EXCEPT !.done = @ \cup {id}]
HCallRead(h, t) == h

\* get returned Some(id) / is_set returned TRUE (id = 0 for is_set)
HRetSome(h, t, id) ==
  LET v == (IF id # 0 /\ id \notin h.started THEN {<<"C18", "get-returned-a-value-nobody-set">>} ELSE {})
           \cup (IF id # 0 /\ h.seenId # 0 /\ id # h.seenId THEN {<<"C18", "get-returned-two-different-clients">>} ELSE {})
           \cup (IF id # 0 /\ \E a \in h.done : <<a, id>> \in h.before
                 THEN {<<"C18", "a-later-set-replaced-the-first">>} ELSE {})
           \cup (IF id = 0 /\ h.started = {} THEN {<<"C18", "is-set-true-before-any-set">>} ELSE {})
  IN [Flag(h, v) EXCEPT !.seenId = IF id # 0 THEN id ELSE @, !.someRet = TRUE, !.sawSome[t] = TRUE]

\* the call unwound
HRetPanic(h, t) == Flag(h, {<<"C18", "holder-call-panicked">>, <<"C20", "panic-in-global-holder">>})

\* get returned None / is_set returned FALSE
HRetNone(h, t) ==
  LET v == (IF h.sawSome[t] THEN {<<"C18", "unset-reported-after-this-thread-had-seen-the-value">>} ELSE {})
  IN Flag(h, v)
=============================================================================
