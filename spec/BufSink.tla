------------------------------ MODULE BufSink ------------------------------
(***************************************************************************)
(* Several threads emitting and flushing through ONE shared buffered sink  *)
(* (C12): every emit/flush of Buffered{Udp,Unix,Spy}MetricSink runs under  *)
(* one Mutex guard (udp.rs:261-270, unix.rs:229-238, spy.rs:105-114).      *)
(*   Acquire(t)  self.buffer.lock()        Write(t)  writer.write / flush  *)
(*   Release(t)  the guard is dropped when the call returns                *)
(* The writer inside the critical section is the fault-free abstraction of *)
(* Writer.tla (which is checked separately); the property monitor is the   *)
(* same WriterProp, fed in lock order.  TLC explores every interleaving.   *)
(* Bug re-introduces realistic mistakes: "try-lock-skip" (a contended call *)
(* returns Ok without buffering), "unlock-early" (the flush and the        *)
(* buffering of one emit happen in two critical sections).                 *)
(***************************************************************************)
EXTENDS Naturals, Sequences, FiniteSets, TLC

CONSTANTS Threads, Prog, Cap, Bug     \* Prog[t]: sequence of metric lengths, 0 = flush
VARIABLES holder, pc, ip, pend, wire, mon
vars == <<holder, pc, ip, pend, wire, mon>>

Rep(x, n) == [j \in 1..n |-> x]
Term == <<0>>
P == INSTANCE WriterProp WITH Empty <- <<>>, BLen <- Len
Id(t, i) == t * 10 + i
Bytes(t) == Rep(Id(t, ip[t]), Prog[t][ip[t]])
IsFlush(t) == Prog[t][ip[t]] = 0

Init == /\ holder = 0 /\ pc = [t \in Threads |-> "idle"] /\ ip = [t \in Threads |-> 1]
        /\ pend = <<>> /\ wire = <<>> /\ mon = P!MonInit(Cap, Term)

Acquire(t) ==
  /\ pc[t] = "idle" /\ ip[t] <= Len(Prog[t])
  /\ IF holder = 0
     THEN /\ holder' = t /\ pc' = [pc EXCEPT ![t] = "in"]
          /\ mon' = P!MonCall(mon, IF IsFlush(t) THEN "flush" ELSE "emit", IF IsFlush(t) THEN <<>> ELSE Bytes(t))
          /\ UNCHANGED ip
     ELSE /\ Bug = "try-lock-skip"        \* contended: give up and report success
          /\ mon' = P!MonRet(P!MonCall(mon, IF IsFlush(t) THEN "flush" ELSE "emit", IF IsFlush(t) THEN <<>> ELSE Bytes(t)),
                             TRUE, Prog[t][ip[t]], "")
          /\ ip' = [ip EXCEPT ![t] = @ + 1] /\ UNCHANGED <<holder, pc>>
  /\ UNCHANGED <<pend, wire>>

Lines(p) == P!Lines(p, Term)
\* the whole call inside the critical section: flush if it does not fit, then buffer
Write(t) ==
  /\ pc[t] = "in" /\ holder = t
  /\ IF IsFlush(t)
     THEN /\ wire' = IF pend # <<>> THEN Append(wire, pend) ELSE wire
          /\ mon' = IF pend # <<>> THEN P!MonAtt(mon, Lines(pend), TRUE, "") ELSE mon
          /\ pend' = <<>> /\ pc' = [pc EXCEPT ![t] = "out"] /\ UNCHANGED holder
     ELSE LET b == Bytes(t) req == Len(b) + 1 IN
          IF req > Cap
          THEN /\ wire' = Append(wire, <<b>>) /\ mon' = P!MonAtt(mon, b, TRUE, "")
               /\ pc' = [pc EXCEPT ![t] = "out"] /\ UNCHANGED <<pend, holder>>
          ELSE IF Len(Lines(pend)) + req > Cap
          THEN /\ wire' = Append(wire, pend) /\ mon' = P!MonAtt(mon, Lines(pend), TRUE, "")
               /\ IF Bug = "unlock-early"
                  THEN pend' = <<>> /\ holder' = 0 /\ pc' = [pc EXCEPT ![t] = "relock"]   \* lock dropped too early
                  ELSE pend' = <<b>> /\ pc' = [pc EXCEPT ![t] = "out"] /\ UNCHANGED holder
          ELSE /\ pend' = Append(pend, b) /\ pc' = [pc EXCEPT ![t] = "out"] /\ UNCHANGED <<wire, mon, holder>>
  /\ UNCHANGED ip

Relock(t) == /\ pc[t] = "relock" /\ holder = 0
             /\ holder' = t /\ pend' = Append(pend, Bytes(t)) /\ pc' = [pc EXCEPT ![t] = "out"]
             /\ UNCHANGED <<ip, wire, mon>>

Release(t) ==
  /\ pc[t] = "out" /\ holder = t
  /\ holder' = 0 /\ pc' = [pc EXCEPT ![t] = "idle"] /\ ip' = [ip EXCEPT ![t] = @ + 1]
  /\ mon' = P!MonRet(mon, TRUE, Prog[t][ip[t]], "")
  /\ UNCHANGED <<pend, wire>>

AllDone == \A t \in Threads : pc[t] = "idle" /\ ip[t] > Len(Prog[t])
\* the sink is dropped at the end: what is left is written
Drop == /\ AllDone /\ mon.mode = "idle"
        /\ mon' = P!MonRet(IF pend # <<>> THEN P!MonAtt(P!MonCall(mon, "drop", <<>>), Lines(pend), TRUE, "")
                                          ELSE P!MonCall(mon, "drop", <<>>), TRUE, 0, "")
        /\ wire' = (IF pend # <<>> THEN Append(wire, pend) ELSE wire) /\ pend' = <<>>
        /\ UNCHANGED <<holder, pc, ip>>

Next == (\E t \in Threads : Acquire(t) \/ Write(t) \/ Relock(t) \/ Release(t)) \/ Drop
Spec == Init /\ [][Next]_vars

NoViolation == mon.viol = {}
MutualExclusion == \A t \in Threads : pc[t] \in {"in", "out"} => holder = t
\* each thread's buffered metrics leave in that thread's program order
RECURSIVE Flat(_)
Flat(ds) == IF ds = <<>> THEN <<>> ELSE Head(ds) \o Flat(Tail(ds))
OnWire == LET f == Flat(wire) IN [i \in 1..Len(f) |-> IF f[i] = <<>> THEN 0 ELSE f[i][1]]
ThreadOrder == \A i, j \in 1..Len(OnWire) :
                 (i < j /\ OnWire[i] # 0 /\ OnWire[j] # 0 /\ OnWire[i] \div 10 = OnWire[j] \div 10
                  /\ Prog[OnWire[i] \div 10][OnWire[i] % 10] + 1 <= Cap /\ Prog[OnWire[j] \div 10][OnWire[j] % 10] + 1 <= Cap)
                 => OnWire[i] < OnWire[j]
=============================================================================
