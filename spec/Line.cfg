SPECIFICATION Spec
INVARIANTS RoundTrip Standalone
CHECK_DEADLOCK FALSE
