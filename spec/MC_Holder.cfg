SPECIFICATION Spec
CONSTANTS
  T <- MCT
  Prog <- ProgA
  OrdCasS = "AcqRel"
  OrdCasF = "Relaxed"
  OrdStore = "Release"
  OrdLoad = "Acquire"
  Stale = TRUE
  Hist = FALSE
INVARIANTS NoViolation OneWinner GetSound
CHECK_DEADLOCK FALSE
