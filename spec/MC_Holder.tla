---------------------------- MODULE MC_Holder ----------------------------
EXTENDS Holder
MCT == {1, 2, 3}
\* two racing setters and a reader overlapping the initialisation window
ProgA == <<<<"set", "get">>, <<"set", "get">>, <<"get", "is_set", "get">>>>
ProgB == <<<<"set", "is_set", "get">>, <<"get", "set">>, <<"is_set", "get", "get">>>>
ProgC == <<<<"get", "set", "get">>, <<"set", "set">>, <<"get", "get">>>>
ProgD == <<<<"set", "get", "is_set">>, <<"set", "get", "is_set">>, <<"set", "get">>>>
ProgE == <<<<"is_set", "set", "get">>, <<"get", "get", "set">>, <<"get", "is_set", "get">>>>
ProgF == <<<<"set", "set", "get">>, <<"get", "set", "get">>, <<"is_set", "get">>>>
=============================================================================
