------------------------------- MODULE Sock -------------------------------
(***************************************************************************)
(* Unbuffered socket sink (UdpMetricSink / UnixMetricSink) with N threads  *)
(* emitting concurrently and a thread sampling stats() (C13, C14):         *)
(*   Send      socket.send_to(metric.as_bytes(), addr)   udp.rs:113-116    *)
(*   CountB    stats.incr_bytes_sent / incr_bytes_dropped  core.rs:79-92   *)
(*   CountP    stats.incr_packets_sent / incr_packets_dropped              *)
(*   Return    the number of bytes sent or the socket's error              *)
(* The two increments of one attempt are separate atomic steps (Relaxed    *)
(* fetch_add), so a sampler may see them half done; at quiescence the      *)
(* totals are exact.  Bug = "lost-update" models a non-atomic increment.   *)
(***************************************************************************)
EXTENDS Naturals, Sequences, FiniteSets, TLC

CONSTANTS Threads, PerThread, Lens, Bug
VARIABLES pc, done, cur, ok, wire, bs, ps, bd, pd, tmp, results, sampled
vars == <<pc, done, cur, ok, wire, bs, ps, bd, pd, tmp, results, sampled>>

Init == /\ pc = [t \in Threads |-> "idle"] /\ done = [t \in Threads |-> 0]
        /\ cur = [t \in Threads |-> 0] /\ ok = [t \in Threads |-> TRUE]
        /\ wire = <<>> /\ bs = 0 /\ ps = 0 /\ bd = 0 /\ pd = 0 /\ tmp = [t \in Threads |-> 0]
        /\ results = <<>> /\ sampled = <<>>

Start(t, len) == /\ pc[t] = "idle" /\ done[t] < PerThread
                 /\ cur' = [cur EXCEPT ![t] = len] /\ pc' = [pc EXCEPT ![t] = "send"]
                 /\ UNCHANGED <<done, ok, wire, bs, ps, bd, pd, tmp, results, sampled>>
Send(t, o) ==    /\ pc[t] = "send"
                 /\ ok' = [ok EXCEPT ![t] = o]
                 /\ wire' = IF o THEN Append(wire, <<t, done[t] + 1, cur[t]>>) ELSE wire   \* exactly the metric, one datagram
                 /\ pc' = [pc EXCEPT ![t] = IF Bug = "lost-update" THEN "loadB" ELSE "countB"]
                 /\ UNCHANGED <<done, cur, bs, ps, bd, pd, tmp, results, sampled>>
\* non-atomic variant (mutant): load, then store load + n
LoadB(t) ==      /\ pc[t] = "loadB" /\ tmp' = [tmp EXCEPT ![t] = IF ok[t] THEN bs ELSE bd] /\ pc' = [pc EXCEPT ![t] = "storeB"]
                 /\ UNCHANGED <<done, cur, ok, wire, bs, ps, bd, pd, results, sampled>>
StoreB(t) ==     /\ pc[t] = "storeB"
                 /\ IF ok[t] THEN bs' = tmp[t] + cur[t] /\ UNCHANGED bd ELSE bd' = tmp[t] + cur[t] /\ UNCHANGED bs
                 /\ pc' = [pc EXCEPT ![t] = "countP"]
                 /\ UNCHANGED <<done, cur, ok, wire, ps, pd, tmp, results, sampled>>
CountB(t) ==     /\ pc[t] = "countB"
                 /\ IF ok[t] /\ Bug # "drop-counts-as-sent" THEN bs' = bs + cur[t] /\ UNCHANGED bd
                    ELSE IF ok[t] THEN bs' = bs + cur[t] /\ UNCHANGED bd
                    ELSE IF Bug = "drop-counts-as-sent" THEN bs' = bs + cur[t] /\ UNCHANGED bd
                    ELSE bd' = bd + cur[t] /\ UNCHANGED bs
                 /\ pc' = [pc EXCEPT ![t] = "countP"]
                 /\ UNCHANGED <<done, cur, ok, wire, ps, pd, tmp, results, sampled>>
CountP(t) ==     /\ pc[t] = "countP"
                 /\ IF ok[t] THEN ps' = ps + 1 /\ UNCHANGED pd ELSE pd' = pd + 1 /\ UNCHANGED ps
                 /\ pc' = [pc EXCEPT ![t] = "ret"]
                 /\ UNCHANGED <<done, cur, ok, wire, bs, bd, tmp, results, sampled>>
Return(t) ==     /\ pc[t] = "ret"
                 /\ results' = Append(results, [t |-> t, ok |-> ok[t], n |-> cur[t]])
                 /\ done' = [done EXCEPT ![t] = @ + 1] /\ pc' = [pc EXCEPT ![t] = "idle"]
                 /\ UNCHANGED <<cur, ok, wire, bs, ps, bd, pd, tmp, sampled>>
Next == \E t \in Threads : (\E n \in Lens : Start(t, n)) \/ (\E o \in BOOLEAN : Send(t, o))
                           \/ LoadB(t) \/ StoreB(t) \/ CountB(t) \/ CountP(t) \/ Return(t)
Spec == Init /\ [][Next]_vars

RECURSIVE SumLen(_, _)
SumLen(rs, o) == IF rs = <<>> THEN 0 ELSE (IF Head(rs).ok = o THEN Head(rs).n ELSE 0) + SumLen(Tail(rs), o)
Count(rs, o) == Cardinality({i \in 1..Len(rs) : rs[i].ok = o})
Quiescent == \A t \in Threads : pc[t] = "idle"
\* C14: at any quiescent moment the four counters add up exactly
C14_Exact == Quiescent => /\ ps = Count(results, TRUE) /\ pd = Count(results, FALSE)
                          /\ bs = SumLen(results, TRUE) /\ bd = SumLen(results, FALSE)
                          /\ ps + pd = Len(results)
\* C13: one datagram per accepted emit, exactly the metric, nothing for refused ones
C13_Wire == Quiescent => Len(wire) = Count(results, TRUE)
=============================================================================
