---------------------------- MODULE WriterIntTrace ----------------------------
(***************************************************************************)
(* Binds the INTEGER ABSTRACTION (WriterInt.tla, whose inductive invariant *)
(* Apalache discharges for all capacities) to the real writer: for every   *)
(* call of a recorded trace whose outcome the abstraction determines, the  *)
(* (written, buffered) pair reported by the cfg(cadence_verif) accessor    *)
(* right after the call must be EmitNextC / flush of the abstraction, and  *)
(* must satisfy the inductive invariant.  A mismatch is a MODEL DIVERGENCE *)
(* (the abstraction no longer mirrors the code), not a property violation. *)
(***************************************************************************)
EXTENDS Integers, Sequences, FiniteSets, TLC, Json, IOUtils, WriterIntOps

Rec == ndJsonDeserialize(IOEnv.TRACE)
VARIABLES l, cap, tlen, w, b,      \* the abstraction's state
          op, len, failed, insync, \* current call; a non-retried failed attempt was seen; state known
          checked, div
vars == <<l, cap, tlen, w, b, op, len, failed, insync, checked, div>>
Init == l = 1 /\ cap = 0 /\ tlen = 0 /\ w = 0 /\ b = 0 /\ op = "none" /\ len = 0 /\ failed = FALSE /\ insync = FALSE
        /\ checked = 0 /\ div = {}
E == Rec[l]
Adv == l' = l + 1

Reset == /\ E.ev = "reset" /\ Adv
         /\ cap' = E.cap /\ tlen' = E.tlen /\ w' = 0 /\ b' = 0 /\ insync' = (E.kind = "mlw")
         /\ op' = "none" /\ UNCHANGED <<len, failed, checked, div>>
Call  == /\ E.ev = "call" /\ Adv /\ op' = E.op /\ len' = E.len /\ failed' = FALSE
         /\ UNCHANGED <<cap, tlen, w, b, insync, checked, div>>
Att   == /\ E.ev = "att" /\ Adv
         /\ failed' = (failed \/ (~E.ok /\ E.kind # "Interrupted"))
         /\ UNCHANGED <<cap, tlen, w, b, op, len, insync, checked, div>>
\* the abstraction's prediction for the call that just returned (only when it determines the outcome)
Ret   == /\ E.ev = "ret" /\ Adv
         \* an emit that returned Ok went through (its flush, if any, succeeded); an emit that returned Err may have
         \* failed in its flush (state unchanged) or in a direct write after it (fill count already reset): not predicted
         /\ LET nx == IF op = "emit" THEN EmitNextC(cap, tlen, w, b, len, TRUE)
                      ELSE IF op = "flush" THEN (IF E.ok THEN <<0, 0>> ELSE <<w, b>>)
                      ELSE <<w, b>>
                pred == op = "flush" \/ (op = "emit" /\ E.ok)
            IN /\ w' = nx[1] /\ b' = nx[2]
               /\ insync' = (insync /\ pred)
         /\ UNCHANGED <<cap, tlen, op, len, failed, checked, div>>
\* the code's own counters right after the call
St    == /\ E.ev = "st" /\ Adv
         /\ IF insync
            THEN /\ checked' = checked + 1
                 /\ div' = IF Cardinality(div) > 20 THEN div
                           ELSE div \cup (IF <<E.written, E.buffered>> # <<w, b>> THEN {<<l, w, b, E.written, E.buffered>>} ELSE {})
                                    \cup (IF ~(E.written <= cap /\ E.buffered <= cap /\ (E.buffered = E.written \/ (E.buffered = 0 /\ E.written = cap)))
                                          THEN {<<l, -1, cap, E.written, E.buffered>>} ELSE {})   \* -1: the inductive invariant itself is broken
                 /\ UNCHANGED <<w, b, insync>>
            ELSE /\ w' = E.written /\ b' = E.buffered /\ insync' = TRUE /\ UNCHANGED <<checked, div>>   \* resynchronise
         /\ UNCHANGED <<cap, tlen, op, len, failed>>
Skip  == /\ E.ev \notin {"reset", "call", "att", "ret", "st"} /\ Adv
         /\ UNCHANGED <<cap, tlen, w, b, op, len, failed, insync, checked, div>>
Next == l <= Len(Rec) /\ (Reset \/ Call \/ Att \/ Ret \/ St \/ Skip)
Spec == Init /\ [][Next]_vars
Verdict == l = Len(Rec) + 1 =>
             PrintT(<<"VERDICT", ToJson([consumed |-> l - 1, total |-> Len(Rec), bad |-> {}, checked |-> checked, div |-> div])>>)
Consumed == TLCGet("stats").diameter - 1 = Len(Rec)
=============================================================================
