SPECIFICATION Spec
INVARIANT Verdict
POSTCONDITION Consumed
CHECK_DEADLOCK FALSE
