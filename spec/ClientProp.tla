---------------------------- MODULE ClientProp ----------------------------
(***************************************************************************)
(* PROPERTY MONITOR for one metric call on a StatsdClient (C01 C02 C03 C04 *)
(* C17, and C20 for panics).  Observable events of a call:                 *)
(*   call(...)     what was asked: entry point, form (plain / tagged /     *)
(*                 quiet / macro), key, the numerals the value must render *)
(*                 to (or valid = FALSE: the value must be rejected), the  *)
(*                 optional sections, whether a global client is set       *)
(*   emit(text)    the sink's emit was invoked with text                   *)
(*   sret(ok,kind,msg)  what the (scripted) sink answered                  *)
(*   eh(kind,srckind,srcmsg)  the client's error handler was invoked       *)
(*   end(...)      the call returned: its result, or that it panicked      *)
(* The expected line is computed from the call by the grammar of           *)
(* LineGrammar (string instance).                                          *)
(***************************************************************************)
EXTENDS Naturals, Sequences, FiniteSets

Id(s) == s
G == INSTANCE LineGrammar WITH Empty <- "", Tk <- Id

CInit(cfg) == [cfg |-> cfg, cur |-> [form |-> "none"], emits |-> <<>>, srets |-> <<>>, ehs |-> <<>>, viol |-> {}]
Flag(c, v) == [c EXCEPT !.viol = @ \cup v]

CCall(c, call) == [c EXCEPT !.cur = call, !.emits = <<>>, !.srets = <<>>, !.ehs = <<>>]

Decorated(c) == c.cfg.dtags # <<>> \/ c.cfg.dcid.has \/ c.cur.cid.has
CEmit(c, e) ==
  LET text == e.text
      exp  == G!Line(c.cfg, c.cur)
      wrong == c.cur.valid /\ text # exp
      \* a value that cannot be rendered has no faithful line: whatever text was handed to the sink does not carry the
      \* value that was supplied (C01: parsing the line back yields exactly the supplied value list)
      v == (IF ~c.cur.valid THEN {<<"C03", "emit-for-a-rejected-value">>, <<"C02", "invalid-value-was-sent">>,
                                  <<"C20", "invalid-value-not-reported-as-error">>,
                                  <<"C01", "line-emitted-for-a-value-that-cannot-be-rendered">>} ELSE {})
           \cup (IF Len(c.emits) >= 1 THEN {<<"C03", "more-than-one-emit-in-one-call">>} ELSE {})
           \cup (IF wrong THEN {<<"C01", "line-differs-from-the-grammar">>} ELSE {})
           \cup (IF wrong /\ Decorated(c) THEN {<<"C04", "decorated-line-differs-from-the-grammar">>} ELSE {})
           \cup (IF wrong /\ c.cur.form = "macro" THEN {<<"C17", "macro-line-differs-from-tagged-quiet-send">>} ELSE {})
           \cup (IF wrong /\ e.gv /\ e.gotvals # c.cur.vals THEN {<<"C02", "numerals-on-the-wire-differ-from-the-value">>} ELSE {})
  IN [Flag(c, v) EXCEPT !.emits = Append(@, text)]

CSRet(c, e) == [c EXCEPT !.srets = Append(@, [ok |-> e.ok, kind |-> e.kind, msg |-> e.msg])]
CEH(c, e)   == [c EXCEPT !.ehs = Append(@, [kind |-> e.kind, srckind |-> e.srckind, srcmsg |-> e.srcmsg])]

CEnd(c, e) ==
  LET cur == c.cur
      mac == cur.form = "macro"
      unset == mac /\ ~cur.global_set
      refused == c.srets # <<>> /\ ~c.srets[1].ok
      failed == ~cur.valid \/ refused
      hasres == cur.form \in {"plain", "tagged"}
      \* the error a failing call must report
      errOk(kind, sk, sm) == IF ~cur.valid THEN kind = "InvalidInput"
                             ELSE kind = "IoError" /\ sk = c.srets[1].kind /\ sm = c.srets[1].msg
      v == (IF e.panicked /\ ~unset THEN {<<"C20", "panic">>, <<"C03", "call-panicked">>}
                                         \cup (IF mac THEN {<<"C17", "macro-panicked-although-global-client-is-set">>} ELSE {})
            ELSE {})
           \cup (IF e.panicked /\ ~unset /\ ~cur.valid THEN {<<"C02", "invalid-value-panicked-instead-of-invalid-input">>} ELSE {})
           \cup (IF unset /\ ~e.panicked THEN {<<"C17", "macro-did-not-panic-without-global-client">>} ELSE {})
           \cup (IF unset /\ c.emits # <<>> THEN {<<"C17", "macro-emitted-without-global-client">>} ELSE {})
           \cup (IF ~unset /\ ~e.panicked /\ cur.valid /\ Len(c.emits) # 1
                 THEN {<<"C03", "valid-call-did-not-emit-exactly-once">>}
                      \cup (IF mac THEN {<<"C17", "macro-did-not-emit-exactly-once">>} ELSE {})
                      \cup (IF c.emits = <<>> THEN {<<"C02", "valid-value-was-not-sent">>, <<"C20", "valid-value-was-not-sent">>} ELSE {})
                 ELSE {})
           \* try forms: the result tells the truth
           \cup (IF hasres /\ ~e.panicked /\ ~failed /\ Len(c.emits) = 1 /\ ~(e.ok /\ e.text = c.emits[1])
                 THEN {<<"C03", "result-is-not-ok-with-the-emitted-metric">>} ELSE {})
           \cup (IF hasres /\ ~e.panicked /\ failed /\ e.ok
                 THEN {<<"C03", "ok-although-the-call-failed">>}
                      \cup (IF ~cur.valid THEN {<<"C02", "invalid-value-accepted">>, <<"C20", "invalid-value-not-reported-as-error">>} ELSE {})
                 ELSE {})
           \cup (IF hasres /\ ~e.panicked /\ failed /\ ~e.ok /\ ~errOk(e.kind, e.srckind, e.srcmsg)
                 THEN {<<"C03", "error-does-not-describe-the-failure">>}
                      \cup (IF ~cur.valid THEN {<<"C02", "rejection-is-not-invalid-input">>} ELSE {})
                 ELSE {})
           \cup (IF hasres /\ c.ehs # <<>> THEN {<<"C03", "handler-invoked-by-a-try-form">>} ELSE {})
           \cup (IF hasres /\ e.hasstandalone /\ Len(c.emits) = 1 /\ e.standalone # c.emits[1]
                 THEN {<<"C01", "standalone-constructor-renders-differently">>} ELSE {})
           \* quiet forms: failures go to the handler exactly once, successes never
           \cup (IF ~hasres /\ ~unset /\ ~e.panicked /\ failed /\ c.cfg.handler
                    /\ ~(Len(c.ehs) = 1 /\ errOk(c.ehs[1].kind, c.ehs[1].srckind, c.ehs[1].srcmsg))
                 THEN {<<"C03", "handler-not-invoked-exactly-once-with-the-error">>}
                      \cup (IF mac THEN {<<"C17", "macro-failure-not-routed-to-the-handler">>} ELSE {})
                      \cup (IF ~cur.valid /\ c.ehs = <<>> THEN {<<"C02", "invalid-value-not-rejected">>} ELSE {})
                 ELSE {})
           \cup (IF ~hasres /\ ~failed /\ c.ehs # <<>> THEN {<<"C03", "handler-invoked-on-success">>} ELSE {})
           \cup (IF mac /\ ~unset /\ ~e.panicked /\ e.evals # e.args THEN {<<"C17", "macro-argument-not-evaluated-exactly-once">>} ELSE {})
           \cup (IF e.badfloat > 0 THEN {<<"C02", "float-numeral-does-not-parse-back-bit-identically">>} ELSE {})
  IN [Flag(c, v) EXCEPT !.cur = [form |-> "none"]]

CBuildPanic(c) == Flag(c, {<<"C20", "panic-while-building-the-client">>})
=============================================================================
