---------------------------- MODULE ClientTrace ----------------------------
(***************************************************************************)
(* TRACE SPECIFICATION for the client: every call recorded from the real   *)
(* code (replayed TLC shapes, random drivers, macro child processes) is    *)
(* judged by ClientProp; the expected line of every call is computed here, *)
(* in TLA+, by LineGrammar.                                                *)
(***************************************************************************)
EXTENDS Naturals, Sequences, FiniteSets, TLC, Json, IOUtils

Rec == ndJsonDeserialize(IOEnv.TRACE)
P == INSTANCE ClientProp

VARIABLES l, mon, run, bad
vars == <<l, mon, run, bad>>
NoCfg == [hasprefix |-> FALSE, base |-> "", dtags |-> <<>>, dcid |-> [has |-> FALSE, v |-> ""], handler |-> FALSE]
Init == l = 1 /\ run = 0 /\ bad = {} /\ mon = P!CInit(NoCfg)
E == Rec[l]
\* (bounded PER PROPERTY, so that a flood of flags of one property cannot hide another property's)
Note(b, vs) == b \cup { <<v[1], v[2], run, l>> : v \in { w \in vs : Cardinality({x \in b : x[1] = w[1]}) < 120 } }
Step(m2) == /\ mon' = m2 /\ bad' = Note(bad, m2.viol \ mon.viol) /\ l' = l + 1 /\ UNCHANGED run

Reset == /\ E.ev = "reset"
         /\ mon' = P!CInit([hasprefix |-> E.hasprefix, base |-> E.base, dtags |-> E.dtags, dcid |-> E.dcid, handler |-> E.handler])
         /\ run' = l /\ l' = l + 1 /\ UNCHANGED bad
Call == E.ev = "call" /\ Step(P!CCall(mon, E))
Emit == E.ev = "emit" /\ Step(P!CEmit(mon, E))
SRet == E.ev = "sret" /\ Step(P!CSRet(mon, E))
EH   == E.ev = "eh"   /\ Step(P!CEH(mon, E))
End  == E.ev = "end"  /\ Step(P!CEnd(mon, E))
BP   == E.ev = "buildpanic" /\ Step(P!CBuildPanic(mon))
Skip == E.ev \in {"note"} /\ Step(mon)
Next == l <= Len(Rec) /\ (Reset \/ Call \/ Emit \/ SRet \/ EH \/ End \/ BP \/ Skip)
Spec == Init /\ [][Next]_vars
Verdict == l = Len(Rec) + 1 =>
             PrintT(<<"VERDICT", ToJson([consumed |-> l - 1, total |-> Len(Rec), bad |-> bad])>>)
Consumed == TLCGet("stats").diameter - 1 = Len(Rec)
=============================================================================
